(* Lex/Quote.v — character-level scanners of ford/reader.py and ford/utils.py:
   _unterminated_quote, _match_docmark, the COM_RE / docmark regular expressions, quote_split.
   Executable definitions only. *)
From Ford Require Import Base.Str.

Definition sq : ascii := "'"%char.
Definition dq : ascii := """"%char.
Definition bang : ascii := "!"%char.
Definition amp : ascii := "&"%char.
Definition semi : ascii := ";"%char.
Definition hash : ascii := "#"%char.
Definition is_quote (c : ascii) : bool := Ascii.eqb c sq || Ascii.eqb c dq.

(* ---- reader._unterminated_quote (plain open/close toggling; returns the open delimiter) and its
   wrapper _contains_unterminated_string ---- *)
(* state: None = outside a literal, Some q = inside a literal opened by q *)
Definition qstep (st : option ascii) (c : ascii) : option ascii :=
  if is_quote c then
    match st with
    | Some q => if Ascii.eqb c q then None else st
    | None => Some c
    end
  else st.
Definition qstate (x : str) : option ascii := fold_left qstep x None.
Definition unterminated (x : str) : bool :=
  match qstate x with Some _ => true | None => false end.

(* ---- the comment regexes COM_RE and _compile_docmark: a prefix made of characters other than
   quotes and '!' and of complete quoted strings, followed by "!MARK" and the rest of the line ----
   The prefix cannot step over an unquoted '!' nor over a quote that is not closed on the
   same line, so group 4 — if the pattern matches at all — starts at the first '!' that is
   outside quotes, and the pattern matches iff "!MARK" is found there.  [first_bang] returns
   that index. (Lines carry no embedded newline.) *)
Fixpoint first_bang_from (st : option ascii) (i : nat) (x : str) : option nat :=
  match x with
  | [] => None
  | c :: x' =>
    match st with
    | Some q => first_bang_from (if Ascii.eqb c q then None else st) (S i) x'
    | None =>
      if Ascii.eqb c bang then Some i
      else first_bang_from (if is_quote c then Some c else None) (S i) x'
    end
  end.
Definition first_bang (x : str) : option nat := first_bang_from None 0 x.

(* _match_docmark(pattern, line, open_quote), where open_quote = _unterminated_quote(linebuffer)
   is the delimiter of a literal continued from the previous line (None: there is none).
   If a literal is open and the first non-blank character of the line is not '!', the line is
   blanked out up to and including the first occurrence of the delimiter (no occurrence: no match)
   and the pattern is matched on that — blanks are neither quotes nor '!', so this is the scan
   started inside the literal; otherwise (no literal open, or a comment line between the lines of
   a continued literal) the pattern is matched on the line as it is.  Positions are those of the
   original line. *)
Definition bang_first (line : str) : bool :=
  match lstrip line with c :: _ => Ascii.eqb c bang | [] => false end.
Definition scan_start (line : str) (oq : option ascii) : option ascii :=
  match oq with
  | Some q => if bang_first line then None else Some q
  | None => None
  end.
(* pattern = _compile_docmark(mark): start index of group 4 *)
Definition match_mark (mark line : str) (oq : option ascii) : option nat :=
  match mark with
  | [] => None
  | _ =>
    match first_bang_from (scan_start line oq) 0 line with
    | Some i => if starts_with (bang :: mark) (skipn i line) then Some i else None
    | None => None
    end
  end.
(* pattern = COM_RE *)
Definition match_com (line : str) (oq : option ascii) : option nat :=
  first_bang_from (scan_start line oq) 0 line.

(* ---- utils.quote_split(sep, string) ----
   mode: 0 outside, 1 inside a double-quoted literal, 2 inside a single-quoted one; inside a literal a doubled quote is
   skipped (both characters stay in the piece). [skip] = the i += 1 of the doubled case. *)
Fixpoint qsplit (sep : ascii) (mode : nat) (skip : bool) (cur : str) (x : str) : list str :=
  match x with
  | [] => [rev cur]
  | c :: x' =>
    if skip then qsplit sep mode false (c :: cur) x' else
    match mode with
    | 0 =>
      if Ascii.eqb c dq then qsplit sep 1 false (c :: cur) x'
      else if Ascii.eqb c sq then qsplit sep 2 false (c :: cur) x'
      else if Ascii.eqb c sep then rev cur :: qsplit sep 0 false [] x'
      else qsplit sep 0 false (c :: cur) x'
    | 1 =>
      if Ascii.eqb c dq then
        match x' with
        | d :: _ => if Ascii.eqb d dq then qsplit sep 1 true (c :: cur) x'
                    else qsplit sep 0 false (c :: cur) x'
        | [] => qsplit sep 0 false (c :: cur) x'
        end
      else qsplit sep 1 false (c :: cur) x'
    | _ =>
      if Ascii.eqb c sq then
        match x' with
        | d :: _ => if Ascii.eqb d sq then qsplit sep 2 true (c :: cur) x'
                    else qsplit sep 0 false (c :: cur) x'
        | [] => qsplit sep 0 false (c :: cur) x'
        end
      else qsplit sep 2 false (c :: cur) x'
    end
  end.
Definition quote_split (sep : ascii) (x : str) : list str := qsplit sep 0 false [] x.
