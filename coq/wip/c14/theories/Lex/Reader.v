(* Lex/Reader.v — model of ford.reader.FortranReader.__next__ (free form, no preprocessor,
   no include): physical lines -> logical statements and documentation lines.
   Executable definitions only. Lines are given without their trailing newline. *)
From Ford Require Import Base.Str Lex.Quote.

Record cfg := { docmark : str; predocmark : str; docmark_alt : str; predocmark_alt : str }.
Definition default_cfg : cfg :=
  {| docmark := s "!"; predocmark := s ">"; docmark_alt := s "*"; predocmark_alt := s "|" |}.

Inductive rerr := EPredocInline | EPredocAltInline | EDocAltInline | EAmpStart | EIndex.

(* state that survives between calls of __next__ *)
Record gstate := { docbuffer : list str; prevdoc : bool; reading_alt : nat }.
(* state local to one run of the "while not done" loop *)
Record lstate := { continued : bool; reading_predoc : bool; reading_predoc_alt : nat;
                   linebuffer : str }.

Definition ginit : gstate := {| docbuffer := []; prevdoc := false; reading_alt := 0 |}.
Definition linit : lstate :=
  {| continued := false; reading_predoc := false; reading_predoc_alt := 0; linebuffer := [] |}.

Definition is_blank (x : str) : bool := match strip x with [] => true | _ => false end.
Definition first_is (c : ascii) (x : str) : bool :=
  match x with d :: _ => Ascii.eqb c d | [] => false end.
Definition last_is (c : ascii) (x : str) : bool :=
  match rev x with d :: _ => Ascii.eqb c d | [] => false end.

(* tmp[:1] + docmark + tmp[1+len(mark):]  where tmp = line[i:] *)
Definition remark (c : cfg) (line : str) (i : nat) (marklen : nat) : str :=
  bang :: docmark c ++ skipn (i + 1 + marklen) line.

Inductive step_res :=
| SErr (e : rerr)
| SNext (g : gstate) (l : lstate) (done : bool).

(* one iteration of the loop body for the physical line [line0] *)
Definition step (c : cfg) (g : gstate) (l : lstate) (line0 : str) : step_res :=
  let in_quote := qstate (linebuffer l) in
  if first_is hash (strip line0) then SNext g l false else
  (* preceding documentation *)
  let m1 := match_mark (predocmark c) line0 in_quote in
  let '(db, rp, ra, rpa, e1) :=
    match m1 with
    | Some i => (docbuffer g ++ [remark c line0 i (length (predocmark c))], true, 0, 0,
                 negb (is_blank (firstn i line0)))
    | None => (docbuffer g, reading_predoc l, reading_alt g, reading_predoc_alt l, false)
    end in
  if e1 then SErr EPredocInline else
  (* alternate preceding documentation *)
  let m2 := match_mark (predocmark_alt c) line0 in_quote in
  let '(db, rp, ra, rpa, e2) :=
    match m2 with
    | Some i => (db ++ [remark c line0 i (length (predocmark_alt c))], false, 0, 1,
                 negb (is_blank (firstn i line0)))
    | None => (db, rp, ra, rpa, false)
    end in
  if e2 then SErr EPredocAltInline else
  (* alternate succeeding documentation *)
  let m3 := match_mark (docmark_alt c) line0 in_quote in
  let '(db, rp, ra, rpa, e3) :=
    match m3 with
    | Some i => (db ++ [remark c line0 i (length (docmark_alt c))], false, 1, 0,
                 negb (is_blank (firstn i line0)))
    | None => (db, rp, ra, rpa, false)
    end in
  if e3 then SErr EDocAltInline else
  (* ordinary documentation *)
  let m4 := match_mark (docmark c) line0 in_quote in
  let '(db, ra, rpa, line) :=
    match m4 with
    | Some i => (db ++ [skipn i line0], 0, 0, firstn i line0)
    | None => (db, ra, rpa, line0)
    end in
  let sl := strip line in
  let ra := if is_blank line || negb (first_is bang sl) then 0 else ra in
  let rpa := if negb (is_blank line) && negb (first_is bang sl) then 0 else rpa in
  (* ordinary comments *)
  let '(db, line) :=
    match match_com line in_quote with
    | Some i =>
      ((if ((1 <? rpa) || (1 <? ra)) && is_blank (firstn i line)
        then db ++ [bang :: docmark c ++ skipn (i + 1) line] else db),
       firstn i line)
    | None => (db, line)
    end in
  let line := strip line in
  match line with
  | [] =>
    let db := if prevdoc g && (match db with [] => true | _ => false end)
              then db ++ [bang :: docmark c] else db in
    let ra' := if 0 <? ra then S ra else ra in
    let rpa' := if 0 <? rpa then S rpa else rpa in
    let lb := linebuffer l in
    let dn := (negb (match db with [] => true | _ => false end) || negb (match lb with [] => true | _ => false end))
              && negb (continued l) && negb rp && (rpa' =? 0) in
    SNext {| docbuffer := db; prevdoc := prevdoc g; reading_alt := ra' |}
          {| continued := continued l; reading_predoc := rp; reading_predoc_alt := rpa'; linebuffer := lb |} dn
  | ch :: rest =>
    (* reading_predoc = False; reading_predoc_alt = 0; reading_alt = 0 *)
    let g0 := {| docbuffer := db; prevdoc := prevdoc g; reading_alt := 0 |} in
    let skip := SNext g0 {| continued := continued l; reading_predoc := false;
                            reading_predoc_alt := 0; linebuffer := linebuffer l |} false in
    let finish (lb line : str) :=
      let '(cont, line) := if last_is amp line then (true, removelast line) else (false, line) in
      let lb := lb ++ line in
      let dn := (negb (match db with [] => true | _ => false end) || negb (match lb with [] => true | _ => false end))
                && negb cont in
      SNext g0 {| continued := cont; reading_predoc := false; reading_predoc_alt := 0; linebuffer := lb |} dn in
    if Ascii.eqb ch amp then
      if continued l then
        if is_blank rest then skip else finish (linebuffer l) rest
      else if (length (strip line) =? 1) then skip
      else SErr EAmpStart
    else finish (strip (linebuffer l) ++ s " ") line
  end.

(* the loop: consume physical lines until done; None = the file ended first (StopIteration) *)
Inductive loop_res :=
| LErr (e : rerr)
| LEof
| LDone (g : gstate) (l : lstate) (rest : list str).

Fixpoint loop (c : cfg) (g : gstate) (l : lstate) (lines : list str) : loop_res :=
  match lines with
  | [] => LEof
  | line :: lines' =>
    match step c g l line with
    | SErr e => LErr e
    | SNext g' l' true => LDone g' l' lines'
    | SNext g' l' false => loop c g' l' lines'
    end
  end.

Definition nonempty (x : str) : bool := match x with [] => false | _ => true end.

(* everything the iterator yields between two runs of the loop: the new pending entries, then
   the whole documentation buffer; and the value of prevdoc afterwards *)
Definition emit (c : cfg) (g : gstate) (l : lstate) : option (list str * gstate) :=
  let pend := map strip (filter nonempty (quote_split semi (linebuffer l))) in
  let db := docbuffer g in
  match pend, db with
  | [], [] => None
  | [], d :: db' =>
    let pd := match db' with
              | [] => if str_eqb d (bang :: docmark c) then prevdoc g else true
              | _ => true end in
    Some (db, {| docbuffer := []; prevdoc := pd; reading_alt := reading_alt g |})
  | _, [] => Some (pend, {| docbuffer := []; prevdoc := false; reading_alt := reading_alt g |})
  | _, _ => Some (pend ++ db, {| docbuffer := []; prevdoc := true; reading_alt := reading_alt g |})
  end.

Inductive read_res := ROk (out : list str) | RErr (e : rerr).

Fixpoint read_fuel (fuel : nat) (c : cfg) (g : gstate) (lines : list str) (acc : list str) : read_res :=
  match fuel with
  | 0 => ROk acc
  | S f =>
    match loop c g linit lines with
    | LErr e => RErr e
    | LEof => ROk acc
    | LDone g' l' rest =>
      match emit c g' l' with
      | None => RErr EIndex
      | Some (out, g'') => read_fuel f c g'' rest (acc ++ out)
      end
    end
  end.

(* every run of the loop consumes at least one line, so length lines + 1 is enough fuel *)
Definition read_all (c : cfg) (lines : list str) : read_res :=
  read_fuel (S (length lines)) c ginit lines [].
