(* Lex/QuoteProofs.v — facts about the character scanners, stated against the token-level
   specification of Lex/ReaderSpec.v *)
From Ford Require Import Base.Str Base.StrFacts Lex.Quote Lex.ReaderSpec.
From Coq Require Import Lia.

(* ---------- the literal-state automaton ---------- *)

Definition qrun (st : option ascii) (x : str) : option ascii := fold_left qstep x st.

Lemma qrun_app st a b : qrun st (a ++ b) = qrun (qrun st a) b.
Proof. unfold qrun. apply fold_left_app. Qed.

Lemma qstate_qrun x : qstate x = qrun None x.
Proof. reflexivity. Qed.

Definition no_quote (x : str) : Prop := Forall (fun c => is_quote c = false) x.

Lemma qstep_nq st c : is_quote c = false -> qstep st c = st.
Proof. intros H. unfold qstep. now rewrite H. Qed.

Lemma qrun_cons st c x : qrun st (c :: x) = qrun (qstep st c) x.
Proof. reflexivity. Qed.

Lemma qrun_no_quote st x : no_quote x -> qrun st x = st.
Proof.
  intros H. revert st. induction H as [|c x Hc _ IH]; intros st; [reflexivity|].
  rewrite qrun_cons, (qstep_nq st c Hc). apply IH.
Qed.

Lemma is_quote_cases q : is_quote q = true -> q = sq \/ q = dq.
Proof.
  unfold is_quote. intros H. apply orb_true_iff in H as [H|H]; apply Ascii.eqb_eq in H; auto.
Qed.

Lemma qstep_open q : is_quote q = true -> qstep None q = Some q.
Proof. intros H. unfold qstep. now rewrite H. Qed.

Lemma qstep_close q : is_quote q = true -> qstep (Some q) q = None.
Proof. intros H. unfold qstep. now rewrite H, Ascii.eqb_refl. Qed.

Lemma qstep_inside q c : Ascii.eqb c q = false -> qstep (Some q) c = Some q.
Proof. intros H. unfold qstep. rewrite H. now destruct (is_quote c). Qed.

Lemma qrun_escape_body q body :
  is_quote q = true -> qrun (Some q) (escape_body q body) = Some q.
Proof.
  intros Hq. induction body as [|c body IH]; simpl; [reflexivity|].
  destruct (Ascii.eqb c q) eqn:E; simpl.
  - rewrite (qstep_close q Hq), (qstep_open q Hq). exact IH.
  - rewrite (qstep_inside q c E). exact IH.
Qed.

Lemma qrun_literal q body :
  is_quote q = true -> qrun None (q :: escape_body q body ++ [q]) = None.
Proof.
  intros Hq. simpl. rewrite (qstep_open q Hq). fold (qrun (Some q) (escape_body q body ++ [q])).
  rewrite qrun_app, qrun_escape_body by assumption. simpl. now apply qstep_close.
Qed.

(* well-formed pieces: code carries no quote, no '!' and no ';' ; literal delimiters are quotes *)
Definition code_char (c : ascii) : bool :=
  negb (is_quote c) && negb (Ascii.eqb c bang) && negb (Ascii.eqb c semi).
Definition wf_piece (p : piece) : Prop :=
  match p with
  | PCode t => Forall (fun c => code_char c = true) t
  | PLit q _ => is_quote q = true
  | PSp _ => True
  | PSemi => True
  end.

Lemma code_no_quote t : Forall (fun c => code_char c = true) t -> no_quote t.
Proof.
  intros H. induction H as [|c t Hc _ IH]; constructor; auto.
  unfold code_char in Hc. destruct (is_quote c); [discriminate|reflexivity].
Qed.

Lemma spaces_no_quote n : no_quote (spaces n).
Proof. induction n; simpl; constructor; auto. Qed.

Lemma qrun_piece p : wf_piece p -> qrun None (render_piece p) = None.
Proof.
  destruct p as [t|q body|n|]; simpl; intros H.
  - now apply qrun_no_quote, code_no_quote.
  - now apply qrun_literal.
  - apply qrun_no_quote, spaces_no_quote.
  - reflexivity.
Qed.

Lemma qrun_pieces ps : Forall wf_piece ps -> qrun None (render_pieces ps) = None.
Proof.
  intros H. induction H as [|p ps Hp _ IH]; simpl; [reflexivity|].
  unfold render_pieces in *. simpl. rewrite qrun_app, qrun_piece by assumption. exact IH.
Qed.

(* L1a: complete tokens never leave the scanner inside a literal *)
Theorem unterminated_tokens ps : Forall wf_piece ps -> unterminated (render_pieces ps) = false.
Proof. intros H. unfold unterminated. rewrite qstate_qrun, qrun_pieces by assumption. reflexivity. Qed.

(* L1b: after complete tokens, an opened literal — whatever its body so far, including doubled
   delimiters, the other quote character, '!' ';' '&' — is recognised as open *)
Theorem unterminated_open_literal ps q body :
  Forall wf_piece ps -> is_quote q = true ->
  unterminated (render_pieces ps ++ q :: escape_body q body) = true.
Proof.
  intros H Hq. unfold unterminated. rewrite qstate_qrun, qrun_app, qrun_pieces by assumption.
  simpl. rewrite (qstep_open q Hq). fold (qrun (Some q) (escape_body q body)).
  now rewrite qrun_escape_body.
Qed.

(* ---------- first unquoted '!' ---------- *)

Fixpoint bang_free (st : option ascii) (x : str) : bool :=
  match x with
  | [] => true
  | c :: x' =>
    match st with
    | Some _ => bang_free (qstep st c) x'
    | None => if Ascii.eqb c bang then false else bang_free (qstep None c) x'
    end
  end.

(* the scanner of first_bang moves through the same states as qstep as long as the delimiter
   stored in the state is a quote character *)
Definition st_ok (st : option ascii) : Prop :=
  match st with Some q => is_quote q = true | None => True end.

Lemma qstep_ok st c : st_ok st -> st_ok (qstep st c).
Proof.
  unfold qstep. destruct (is_quote c) eqn:Q; [|auto].
  destruct st as [q|]; simpl; intros H; [destruct (Ascii.eqb c q); simpl; auto|exact Q].
Qed.

Lemma qrun_ok st x : st_ok st -> st_ok (qrun st x).
Proof. revert st. induction x as [|c x IH]; simpl; intros st H; [exact H|]. apply IH, qstep_ok, H. Qed.

Lemma fb_step_some q c : is_quote q = true ->
  (if Ascii.eqb c q then None else Some q) = qstep (Some q) c.
Proof.
  intros Q. unfold qstep. destruct (Ascii.eqb c q) eqn:E.
  - apply Ascii.eqb_eq in E. subst. now rewrite Q.
  - now destruct (is_quote c).
Qed.

Lemma fb_step_none c : (if is_quote c then Some c else None) = qstep None c.
Proof. reflexivity. Qed.

Lemma first_bang_skip st i a b :
  st_ok st -> bang_free st a = true ->
  first_bang_from st i (a ++ b) = first_bang_from (qrun st a) (i + length a) b.
Proof.
  revert st i. induction a as [|c a IH]; intros st i Hok H; simpl.
  - now rewrite Nat.add_0_r.
  - destruct st as [q|]; simpl in H.
    + rewrite (fb_step_some q c Hok). rewrite IH; [f_equal; lia| now apply qstep_ok | exact H].
    + destruct (Ascii.eqb c bang) eqn:E; [discriminate|].
      rewrite fb_step_none. rewrite IH; [f_equal; lia| now apply qstep_ok | exact H].
Qed.

Lemma first_bang_none st i a : st_ok st -> bang_free st a = true -> first_bang_from st i a = None.
Proof.
  intros Hok H. rewrite <- (app_nil_r a). rewrite first_bang_skip by assumption. reflexivity.
Qed.

Lemma bang_free_app st a b :
  bang_free st (a ++ b) = bang_free st a && bang_free (qrun st a) b.
Proof.
  revert st. induction a as [|c a IH]; intros st; simpl; [reflexivity|].
  destruct st as [q|]; [apply IH|]. destruct (Ascii.eqb c bang); [reflexivity|apply IH].
Qed.

Lemma bang_free_inside q x : is_quote q = true -> bang_free (Some q) (escape_body q x) = true.
Proof.
  intros Q. induction x as [|c x IH]; simpl; [reflexivity|].
  destruct (Ascii.eqb c q) eqn:E; simpl.
  - rewrite (qstep_close q Q). simpl.
    assert (Hb : Ascii.eqb q bang = false).
    { destruct (is_quote_cases q Q); subst; reflexivity. }
    rewrite Hb, (qstep_open q Q). exact IH.
  - rewrite (qstep_inside q c E). exact IH.
Qed.

Lemma bang_free_code st t : Forall (fun c => code_char c = true) t -> bang_free st t = true.
Proof.
  intros H. revert st. induction H as [|c t Hc _ IH]; intros st; simpl; [reflexivity|].
  unfold code_char in Hc. apply andb_true_iff in Hc as [Hc _]. apply andb_true_iff in Hc as [_ Hb].
  destruct st; [apply IH|]. destruct (Ascii.eqb c bang); [discriminate|apply IH].
Qed.

Lemma bang_free_spaces st n : bang_free st (spaces n) = true.
Proof.
  revert st. induction n as [|n IH]; intros st; simpl; [reflexivity|]. destruct st; apply IH.
Qed.

Lemma bang_free_piece p : wf_piece p -> bang_free None (render_piece p) = true.
Proof.
  destruct p as [t|q body|n|]; simpl; intros H.
  - now apply bang_free_code.
  - assert (Hb : Ascii.eqb q bang = false) by (destruct (is_quote_cases q H); subst; reflexivity).
    rewrite Hb, (qstep_open q H). rewrite bang_free_app, bang_free_inside by assumption.
    rewrite qrun_escape_body by assumption. simpl. reflexivity.
  - apply (bang_free_spaces None (n)).
  - reflexivity.
Qed.

Lemma bang_free_pieces ps : Forall wf_piece ps -> bang_free None (render_pieces ps) = true.
Proof.
  intros H. induction H as [|p ps Hp _ IH]; simpl; [reflexivity|].
  unfold render_pieces in *. simpl.
  rewrite bang_free_app, bang_free_piece, qrun_piece by assumption. exact IH.
Qed.

(* L2a: a '!' after complete tokens is found, however many '!' the literals contain *)
Theorem comment_found ps rest :
  Forall wf_piece ps ->
  first_bang (render_pieces ps ++ bang :: rest) = Some (length (render_pieces ps)).
Proof.
  intros H. unfold first_bang.
  rewrite first_bang_skip; [|exact I|now apply bang_free_pieces].
  rewrite qrun_pieces by assumption. simpl. reflexivity.
Qed.

(* L2b: without a '!' outside literals no comment is seen *)
Theorem no_comment_in_literal ps :
  Forall wf_piece ps -> first_bang (render_pieces ps) = None.
Proof. intros H. apply first_bang_none; [exact I|now apply bang_free_pieces]. Qed.

(* L2c: on a line that starts inside a literal continued from the previous line (delimiter q,
   rest of the body first), a '!' after the closing delimiter and complete tokens is found; a '!'
   in the rest of the body is not.  (The line's first non-blank character is not '!': that would
   be a comment line.) *)
Theorem comment_found_after_open_literal q body ps rest :
  is_quote q = true -> Forall wf_piece ps ->
  let line := escape_body q body ++ q :: render_pieces ps ++ bang :: rest in
  bang_first line = false ->
  match_com line (Some q) = Some (length (escape_body q body) + 1 + length (render_pieces ps)).
Proof.
  intros Q H line Hb. unfold match_com, scan_start. rewrite Hb. unfold line.
  rewrite first_bang_skip; [|exact Q|now apply bang_free_inside].
  rewrite qrun_escape_body by assumption. cbn [first_bang_from]. rewrite Ascii.eqb_refl.
  rewrite first_bang_skip; [|exact I|now apply bang_free_pieces].
  rewrite qrun_pieces by assumption. cbn [first_bang_from]. rewrite Ascii.eqb_refl. f_equal. lia.
Qed.

(* L2d: a comment line is a comment line also between the lines of a continued literal *)
Theorem comment_line_in_open_literal q i t :
  match_com (spaces i ++ bang :: t) (Some q) = Some i.
Proof.
  assert (Hl : forall n x, lstrip (spaces n ++ x) = lstrip x).
  { induction n as [|n IH]; intros x; [reflexivity|exact (IH x)]. }
  unfold match_com, scan_start, bang_first. rewrite Hl. cbn [lstrip is_space].
  change (is_space bang) with false. cbv iota. rewrite Ascii.eqb_refl.
  rewrite first_bang_skip; [|exact I|apply bang_free_spaces].
  rewrite (qrun_no_quote None (spaces i)) by apply spaces_no_quote.
  cbn [first_bang_from]. rewrite Ascii.eqb_refl. f_equal. unfold spaces. rewrite repeat_length. lia.
Qed.

(* ---------- quote_split ---------- *)

Definition head_is (c : ascii) (x : str) : bool :=
  match x with d :: _ => Ascii.eqb c d | [] => false end.

Definition plain_char (c : ascii) : bool :=
  negb (Ascii.eqb c dq) && negb (Ascii.eqb c sq) && negb (Ascii.eqb c semi).

Lemma qsplit_plain cur t rest :
  Forall (fun c => plain_char c = true) t ->
  qsplit semi 0 false cur (t ++ rest) = qsplit semi 0 false (rev t ++ cur) rest.
Proof.
  intros H. revert cur. induction H as [|c t Hc _ IH]; intros cur; [reflexivity|].
  unfold plain_char in Hc. apply andb_true_iff in Hc as [Hc H3]. apply andb_true_iff in Hc as [H1 H2].
  apply negb_true_iff in H1, H2, H3.
  cbn [app qsplit]. rewrite H1, H2, H3. rewrite IH. cbn [rev]. now rewrite <- app_assoc.
Qed.

Lemma code_plain t : Forall (fun c => code_char c = true) t -> Forall (fun c => plain_char c = true) t.
Proof.
  intros H. induction H as [|c t Hc _ IH]; constructor; auto.
  unfold code_char in Hc. apply andb_true_iff in Hc as [Hc H3]. apply andb_true_iff in Hc as [H1 _].
  unfold plain_char. unfold is_quote in H1. apply negb_true_iff, orb_false_iff in H1 as [H1 H2].
  now rewrite H1, H2, H3.
Qed.

Lemma spaces_plain n : Forall (fun c => plain_char c = true) (spaces n).
Proof. induction n; simpl; constructor; auto. Qed.

Lemma qsplit_semi cur rest :
  qsplit semi 0 false cur (semi :: rest) = rev cur :: qsplit semi 0 false [] rest.
Proof. reflexivity. Qed.

Lemma qsplit_body_dq cur body rest :
  head_is dq rest = false ->
  qsplit semi 1 false cur (escape_body dq body ++ dq :: rest)
  = qsplit semi 0 false (dq :: rev (escape_body dq body) ++ cur) rest.
Proof.
  intros Hr. revert cur. induction body as [|c body IH]; intros cur.
  - cbn [escape_body flat_map app rev qsplit]. rewrite Ascii.eqb_refl.
    destruct rest as [|d rest]; [reflexivity|]. unfold head_is in Hr. rewrite Ascii.eqb_sym in Hr. now rewrite Hr.
  - cbn [escape_body flat_map]. fold (escape_body dq body).
    destruct (Ascii.eqb c dq) eqn:E.
    + cbn [app qsplit]. rewrite Ascii.eqb_refl. cbn [qsplit]. rewrite IH.
      cbn [rev]. rewrite <- !app_assoc. reflexivity.
    + cbn [app qsplit]. rewrite E. rewrite IH. cbn [rev]. rewrite <- app_assoc. reflexivity.
Qed.

Lemma qsplit_body_sq cur body rest :
  head_is sq rest = false ->
  qsplit semi 2 false cur (escape_body sq body ++ sq :: rest)
  = qsplit semi 0 false (sq :: rev (escape_body sq body) ++ cur) rest.
Proof.
  intros Hr. revert cur. induction body as [|c body IH]; intros cur.
  - cbn [escape_body flat_map app rev qsplit]. rewrite Ascii.eqb_refl.
    destruct rest as [|d rest]; [reflexivity|]. unfold head_is in Hr. rewrite Ascii.eqb_sym in Hr. now rewrite Hr.
  - cbn [escape_body flat_map]. fold (escape_body sq body).
    destruct (Ascii.eqb c sq) eqn:E.
    + cbn [app qsplit]. rewrite Ascii.eqb_refl. cbn [qsplit]. rewrite IH.
      cbn [rev]. rewrite <- !app_assoc. reflexivity.
    + cbn [app qsplit]. rewrite E. rewrite IH. cbn [rev]. rewrite <- app_assoc. reflexivity.
Qed.

Lemma qsplit_lit q cur body rest :
  is_quote q = true -> head_is q rest = false ->
  qsplit semi 0 false cur ((q :: escape_body q body ++ [q]) ++ rest)
  = qsplit semi 0 false (rev (q :: escape_body q body ++ [q]) ++ cur) rest.
Proof.
  intros Q Hr. rewrite <- app_comm_cons, <- app_assoc. cbn [app].
  destruct (is_quote_cases q Q); subst q.
  - cbn [qsplit]. change (Ascii.eqb sq dq) with false. rewrite Ascii.eqb_refl.
    rewrite qsplit_body_sq by assumption. f_equal.
    cbn [rev]. rewrite rev_app_distr. cbn [rev app]. rewrite <- !app_assoc. reflexivity.
  - cbn [qsplit]. rewrite Ascii.eqb_refl.
    rewrite qsplit_body_dq by assumption. f_equal.
    cbn [rev]. rewrite rev_app_distr. cbn [rev app]. rewrite <- !app_assoc. reflexivity.
Qed.

(* pieces in sequence: every piece well-formed, and a literal is not immediately followed by
   its own delimiter (two adjacent literals with the same delimiter would read as one) *)
Fixpoint wf_seq (ps : list piece) : Prop :=
  match ps with
  | [] => True
  | p :: ps' =>
    wf_piece p /\
    match p with PLit q _ => head_is q (render_pieces ps') = false | _ => True end /\
    wf_seq ps'
  end.

Lemma wf_seq_forall ps : wf_seq ps -> Forall wf_piece ps.
Proof. induction ps as [|p ps IH]; simpl; intros H; constructor; tauto. Qed.

Lemma render_pieces_app a b : render_pieces (a ++ b) = render_pieces a ++ render_pieces b.
Proof. unfold render_pieces. apply flat_map_app. Qed.

Lemma qsplit_pieces ps curp :
  wf_seq ps ->
  qsplit semi 0 false (rev (render_pieces (rev curp))) (render_pieces ps)
  = map render_pieces (split_semi ps curp).
Proof.
  revert curp. induction ps as [|p ps IH]; intros curp H.
  - simpl. now rewrite rev_involutive.
  - destruct H as (Hp & Hn & Hs).
    assert (Hacc : forall p0, rev (render_piece p0) ++ rev (render_pieces (rev curp))
                              = rev (render_pieces (rev (p0 :: curp)))).
    { intros p0. cbn [rev]. rewrite render_pieces_app, rev_app_distr.
      unfold render_pieces at 2. simpl. now rewrite app_nil_r. }
    change (render_pieces (p :: ps)) with (render_piece p ++ render_pieces ps).
    destruct p as [t|q body|n|].
    + simpl in Hp. cbn [render_piece split_semi].
      rewrite qsplit_plain by now apply code_plain. pose proof (Hacc (PCode t)) as Ha. cbn [render_piece] in Ha. rewrite Ha. now apply IH.
    + simpl in Hp. cbn [render_piece split_semi].
      rewrite qsplit_lit by assumption. pose proof (Hacc (PLit q body)) as Ha. cbn [render_piece] in Ha. rewrite Ha. now apply IH.
    + cbn [render_piece split_semi].
      rewrite qsplit_plain by apply spaces_plain. pose proof (Hacc (PSp n)) as Ha. cbn [render_piece] in Ha. rewrite Ha. now apply IH.
    + cbn [render_piece split_semi app]. rewrite qsplit_semi. rewrite rev_involutive.
      cbn [map]. f_equal. apply (IH [] Hs).
Qed.

(* L3: ';' splits exactly between statements; ';' inside literals never splits *)
Theorem semicolon_split ps :
  wf_seq ps -> quote_split semi (render_pieces ps) = map render_pieces (split_semi ps []).
Proof. intros H. apply (qsplit_pieces ps [] H). Qed.

Example pieces_example :
  let ps := [PCode (s "x=1"); PSemi; PSp 1; PLit sq (s "a;b!c'd"); PCode (s "//"); PLit dq (s "e""f")] in
  wf_seq ps /\
  quote_split semi (render_pieces ps) = [s "x=1"; s " 'a;b!c''d'//""e""""f"""] /\
  first_bang (render_pieces ps ++ s "! c") = Some 23 /\
  bang_first (escape_body sq (s "it's !") ++ sq :: render_pieces ps ++ s "! c") = false /\
  match_com (escape_body sq (s "it's !") ++ sq :: render_pieces ps ++ s "! c") (Some sq) = Some 31.
Proof.
  cbv zeta. split; [|repeat split; vm_compute; reflexivity].
  simpl. repeat split; repeat constructor.
Qed.
