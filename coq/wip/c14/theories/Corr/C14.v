(* Corr/C14.v — judges for the fixed-form converter *)
From Ford Require Import Base.Str Lex.Quote Lex.Reader Lex.ReaderSpec Lex.Fixed Corr.C02.

(* (length_limit, fixed-form lines with their newlines, converter output of the implementation) *)
Definition judge_convert (c : bool * list str * list str) : nat :=
  let '(ll, lines, impl) := c in
  verdict (negb (list_eqb str_eqb (convert_to_free ll lines) impl)) false 0.

(* fixed-form file through converter and reader:
   (length_limit, lines, pieces of every statement, region, reader output of the implementation);
   region 1 = a character literal continued across lines (the one open finding) *)
Definition judge_fixed (c : bool * list str * list (list piece) * nat * (list str + nat)) : nat :=
  let '(ll, lines, pss, region, impl) := c in
  verdict (negb (res_eqb (read_all default_cfg (map chomp (convert_to_free ll lines))) impl))
          (negb (spec_ok pss impl)) region.
