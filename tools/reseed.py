#!/usr/bin/env python3
"""tools/reseed.py [seed ...] : re-base the stored seeded changes on /repo's current HEAD and re-test them.

For each /verif/seeded/<seed>/ : clone /repo HEAD into a scratch dir, apply patch.diff (3-way); on success rewrite
patch.diff as a diff against the current HEAD (the first version is kept as patch.orig.diff), run the demo without
and with the change, run the property's quick check against the patched copy (VERIF_REPO) and record the outcome in
meta.json["retest"].  A seed whose patch no longer applies, or whose demo no longer separates the two trees (for
instance because a repair in /repo changed the code it modified), is marked as such and keeps its earlier result.
Nothing here is read by a check."""
import glob, json, os, re, shutil, subprocess, sys, tempfile

VERIF = "/verif"
seeds = sys.argv[1:] or sorted(os.path.basename(os.path.dirname(p)) for p in glob.glob(f"{VERIF}/seeded/*/patch.diff"))
head = subprocess.check_output(["git", "-C", "/repo", "rev-parse", "--short", "HEAD"], text=True).strip()
env = dict(os.environ, FORD_DEBUGGING="1", PATH="/venv/bin:" + os.environ["PATH"], PYTHONHASHSEED="0")


def run(cmd, **kw):
    return subprocess.run(cmd, capture_output=True, text=True, **kw)


for seed in seeds:
    d = f"{VERIF}/seeded/{seed}"
    prop = re.match(r"C\d\d", seed).group(0)
    meta = json.load(open(f"{d}/meta.json"))
    work = tempfile.mkdtemp(prefix="reseed_")
    try:
        run(["git", "clone", "-q", "/repo", f"{work}/r"])
        r = run(["git", "apply", "--3way", "--whitespace=nowarn", f"{d}/patch.diff"], cwd=f"{work}/r")
        conflict = run(["git", "diff", "--name-only", "--diff-filter=U"], cwd=f"{work}/r").stdout.strip()
        if r.returncode != 0 or conflict:
            meta["retest"] = {"repo_head": head, "status": "patch no longer applies (the code it changed was repaired or rewritten)"}
            print(f"{seed}: CONFLICT")
            json.dump(meta, open(f"{d}/meta.json", "w"), indent=1)
            continue
        diff = run(["git", "diff", "HEAD"], cwd=f"{work}/r").stdout
        base = f"{work}/b"
        os.makedirs(base)
        subprocess.run(f"git -C /repo archive HEAD | tar -x -C {base}", shell=True, check=True)
        r0 = run(["/venv/bin/python", f"{d}/demo.py"], env=dict(env, PYTHONPATH=base), cwd=base)
        r1 = run(["/venv/bin/python", f"{d}/demo.py"], env=dict(env, PYTHONPATH=f"{work}/r"), cwd=f"{work}/r")
        shutil.rmtree(f"{VERIF}/replays/{prop}", ignore_errors=True)
        c = run([f"{VERIF}/check", prop], env=dict(os.environ, VERIF_REPO=f"{work}/r"), cwd=VERIF)
        lines = [l for l in c.stdout.splitlines() if l.startswith("VIOLATION")]
        kinds = []
        for f in sorted(glob.glob(f"{VERIF}/replays/{prop}/*.json"))[:3]:
            kinds.append(json.load(open(f)).get("kind"))
        shutil.rmtree(f"{VERIF}/replays/{prop}", ignore_errors=True)
        how = ("input" if "failing-input" in kinds else "corr" if lines else "missed")
        if not os.path.exists(f"{d}/patch.orig.diff"):
            shutil.copy(f"{d}/patch.diff", f"{d}/patch.orig.diff")
        open(f"{d}/patch.diff", "w").write(diff)
        meta["retest"] = {"repo_head": head, "demo_exit_without_patch": r0.returncode, "demo_exit_with_patch": r1.returncode,
                          "check": f"./check {prop} (quick, seed 1) against HEAD + patch", "check_exit": c.returncode,
                          "violation_lines": len(lines), "replay_kinds": kinds, "caught": how,
                          "status": "ok" if (r0.returncode == 0 and r1.returncode != 0) else
                                    "demo no longer separates the trees (a repair changed the behaviour it relied on)"}
        json.dump(meta, open(f"{d}/meta.json", "w"), indent=1)
        print(f"{seed}: demo {r0.returncode}/{r1.returncode} check_exit={c.returncode} violations={len(lines)} kinds={kinds} -> {how}")
    finally:
        shutil.rmtree(work, ignore_errors=True)
