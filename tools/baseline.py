#!/usr/bin/env python3
"""Run /repo's pinned test-suite (guard off) and compare with BASELINE.json's stable_pass."""
import json, subprocess, sys, tempfile, os, xml.etree.ElementTree as ET
base = json.load(open("/root/.vp/BASELINE.json"))
with tempfile.TemporaryDirectory() as d:
    x = os.path.join(d, "r.xml")
    env = dict(os.environ); env.pop("FORD_VERIF", None)
    subprocess.run(["/venv/bin/python", "-m", "pytest", "-ra", "-q", "-p", "no:cacheprovider", "--timeout=900",
                    "--continue-on-collection-errors", f"--junitxml={x}"], cwd=os.environ.get("BASELINE_DIR", "/repo"), env=env,
                   stdout=subprocess.DEVNULL, stderr=subprocess.DEVNULL)
    passed = set()
    for tc in ET.parse(x).getroot().iter("testcase"):
        if not any(c.tag in ("failure", "error", "skipped") for c in tc):
            passed.add(f"{tc.get('classname')}::{tc.get('name')}")
missing = [t for t in base["stable_pass"] if t not in passed]
print(f"passed={len(passed)} baseline={len(base['stable_pass'])} missing={len(missing)}")
for m in missing: print("MISSING", m)
sys.exit(1 if missing else 0)
