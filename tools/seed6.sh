#!/bin/bash
# tools/seed6.sh <seed id> : validate /tmp/seed/<id>.* into seeded/<id>, run the property's quick check on a copy with the patch, print the replay kinds
cd /verif
id=$1; prop=${id:0:3}
python3 tools/validate_seed.py $id 2>&1 | tail -1
rm -rf replays/$prop
out=$(tools/with_patch.sh seeded/$id/patch.diff $prop 2>&1)
echo "$out" | grep "^\[$prop\]" | tail -1
python3 - <<PY
import json,glob
ks=[ (json.load(open(f)).get('kind'), str(json.load(open(f)).get('what'))[:110]) for f in sorted(glob.glob('/verif/replays/$prop/*.json'))[:3]]
print("$id kinds:", ks)
PY
rm -rf replays/$prop
