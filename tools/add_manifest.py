#!/usr/bin/env python3
"""tools/add_manifest.py <entry.json | -> : insert or replace a checks[] entry in MANIFEST.json (reads JSON from file/stdin)."""
import json, sys
src = sys.stdin.read() if sys.argv[1] == "-" else open(sys.argv[1]).read()
e = json.loads(src)
m = json.load(open("/verif/MANIFEST.json"))
m["checks"] = [c for c in m["checks"] if c["property_id"] != e["property_id"]] + [e]
m["checks"].sort(key=lambda c: c["property_id"])
sp = sorted({c["property_id"] for c in m["checks"]})
m["engines"][0]["serves_properties"] = sp
json.dump(m, open("/verif/MANIFEST.json", "w"), indent=1)
print("checks:", sp)
