#!/bin/bash
# tools/with_patch.sh <patch.diff> <check args...> : run ./check against a scratch copy of /repo with the patch applied
set -e
patch=$(readlink -f "$1"); shift
d=$(mktemp -d /tmp/mut_XXXXXX)
trap 'rm -rf "$d"' EXIT
git -C /repo archive HEAD | tar -x -C "$d"
( cd "$d" && git init -q . 2>/dev/null && git apply --whitespace=nowarn "$patch" ) || { echo "PATCH DOES NOT APPLY"; exit 2; }
cd /verif
VERIF_REPO="$d" ./check "$@"
