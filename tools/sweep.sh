#!/bin/bash
# tools/sweep.sh "<seeds>" "<ids>" : run quick checks on the unchanged tree for several seeds; print only failures
cd /verif
for s in $1; do for p in $2; do
  out=$(VERIF_SEED=$s ./check $p 2>&1); rc=$?
  line=$(echo "$out" | grep "^\[$p\]" | tail -1)
  if [ $rc -ne 0 ] || echo "$out" | grep -q "^VIOLATION"; then echo "FAIL seed=$s $p rc=$rc :: $line"; echo "$out" | grep VIOLATION | head -3; else echo "ok seed=$s $line"; fi
done; done
