#!/usr/bin/env python3
"""tools/validate_seed.py <ID> [name] : confirm a seeded change (/tmp/seed/<ID>.patch.diff + demo + meta):
 applies to /repo HEAD, the pinned 255 tests still pass, the demo exits 0 without and !=0 with the change;
 then store it under /verif/seeded/<name>/."""
import json, os, shutil, subprocess, sys, tempfile, xml.etree.ElementTree as ET
sid = sys.argv[1]; name = sys.argv[2] if len(sys.argv) > 2 else sid
src = "/tmp/seed"
patch, demo, meta = f"{src}/{sid}.patch.diff", f"{src}/{sid}.demo.py", f"{src}/{sid}.meta.json"
base = json.load(open("/root/.vp/BASELINE.json"))
d = tempfile.mkdtemp(prefix="seedval_")
env = dict(os.environ, FORD_DEBUGGING="1", PATH="/venv/bin:" + os.environ["PATH"], PYTHONHASHSEED="0")
try:
    subprocess.run(f"git -C /repo archive HEAD | tar -x -C {d}", shell=True, check=True)
    r0 = subprocess.run(["/venv/bin/python", demo], env=dict(env, PYTHONPATH=d), capture_output=True, text=True, cwd=d)
    ap = subprocess.run(["git", "apply", "--whitespace=nowarn", patch], cwd=d, capture_output=True, text=True)
    if ap.returncode:
        print("PATCH DOES NOT APPLY", ap.stderr); sys.exit(2)
    r1 = subprocess.run(["/venv/bin/python", demo], env=dict(env, PYTHONPATH=d), capture_output=True, text=True, cwd=d)
    x = os.path.join(d, "r.xml")
    e2 = dict(os.environ); e2.pop("FORD_VERIF", None)
    subprocess.run(["/venv/bin/python", "-m", "pytest", "-q", "-p", "no:cacheprovider", "--timeout=900",
                    "--continue-on-collection-errors", f"--junitxml={x}"], cwd=d, env=e2,
                   stdout=subprocess.DEVNULL, stderr=subprocess.DEVNULL)
    passed = {f"{tc.get('classname')}::{tc.get('name')}" for tc in ET.parse(x).getroot().iter("testcase")
              if not any(c.tag in ("failure", "error", "skipped") for c in tc)}
    missing = [t for t in base["stable_pass"] if t not in passed]
    ok = r0.returncode == 0 and r1.returncode != 0 and not missing
    print(f"{sid}: demo without={r0.returncode} with={r1.returncode} tests_missing={len(missing)} -> {'OK' if ok else 'REJECT'}")
    if not ok:
        print(r0.stdout[-500:], r0.stderr[-500:], r1.stdout[-300:], missing[:5]); sys.exit(1)
    out = f"/verif/seeded/{name}"
    os.makedirs(out, exist_ok=True)
    shutil.copy(patch, f"{out}/patch.diff"); shutil.copy(demo, f"{out}/demo.py")
    m = json.load(open(meta))
    m["validated"] = {"repo_head": subprocess.check_output(["git", "-C", "/repo", "rev-parse", "--short", "HEAD"], text=True).strip(),
                      "demo_exit_without_patch": r0.returncode, "demo_exit_with_patch": r1.returncode,
                      "baseline_tests_passing_with_patch": len(base["stable_pass"]) - len(missing),
                      "ran": "tools/validate_seed.py: git archive HEAD + git apply; pinned pytest command; demo with PYTHONPATH=<copy>"}
    json.dump(m, open(f"{out}/meta.json", "w"), indent=1)
finally:
    shutil.rmtree(d, ignore_errors=True)
