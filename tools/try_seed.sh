#!/bin/bash
# tools/try_seed.sh <property ID> <seed name under /tmp/seed, e.g. C09b> : validate + store + run the check against it
cd /verif
tools/validate_seed.py "$2" "$2" 2>&1 | tail -2
[ -f seeded/$2/patch.diff ] || exit 1
tools/with_patch.sh seeded/$2/patch.diff "$1" 2>&1 | grep -v KNOWN | tail -4
python3 - "$1" <<'PY'
import json,glob,sys
for f in sorted(glob.glob(f'/verif/replays/{sys.argv[1]}/*.json'))[:3]:
    r=json.load(open(f)); print('  ', r.get('kind'), '|', str(r.get('what'))[:120])
PY
rm -rf replays/$1
