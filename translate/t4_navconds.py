#!/usr/bin/env python
"""T4 — regenerate coq/theories/Gen/NavConds.v from the working tree (VERIF_REPO, default /repo).

Extracted, fail closed (any construct outside the subset => exit 1, nothing written):

 (a) ford/output.py, Documentation.__init__ (Python ast):
       * every `if COND: self.lists.append(XList(...))`  -> list page X.out_page exists iff COND
       * `entity_list_page_map` (+ the `if settings.incl_src: ....append((project.allfiles, FilePage))`)
         -> for which project collections entity pages are created, and under which condition
       * ListPage.outfile == out_dir / "lists" / out_page ; XList.out_page literals
     ford/fortran_project.py: Project.allfiles yields self.files then self.extra_files
 (b) ford/templates/base.html and index.html (tiny Jinja reader: {% if/elif/else/endif %} nesting,
     {% set v = <int expr> %}, conditions over project.X / project.X|length / `is more_than_one` /
     == / and / or / not / + / bare template variables such as incl_src):
       * every <a href="{{ project_url }}/lists/X.html">  and every single-entity link
         <a href="{{ project_url }}/{{ project.X[0].get_url() }}"> with the conjunction of the enclosing
         branch conditions (path condition), as a boolean function over the record [counts].

Both sides are emitted as boolean functions over one record of collection sizes / flags / numbers.
"""
import ast
import os
import pathlib
import re
import sys

REPO = pathlib.Path(os.environ.get("VERIF_REPO", "/repo"))
OUT = pathlib.Path(__file__).resolve().parent.parent / "coq" / "theories" / "Gen" / "NavConds.v"
TEMPLATES = ["base.html", "index.html"]


class Refuse(Exception):
    pass


def refuse(msg):
    raise Refuse(msg)


# ------------------------------------------------------------------------------------------------
# symbolic expressions:  ("nat", coq) | ("bool", coq) | ("coll", field) | ("opaque", why)

class Fields:
    def __init__(self):
        self.counts, self.flags, self.nums = set(), set(), set()

    def count(self, name):
        self.counts.add(name)
        return f"n_{name} c"

    def flag(self, name):
        self.flags.add(name)
        return f"f_{name} c"

    def num(self, name):
        self.nums.add(name)
        return f"v_{name} c"


def as_bool(e, F):
    t, v = e
    if t == "bool":
        return v
    if t == "nat":
        return f"(0 <? {v})"
    if t == "coll":
        return f"(0 <? {F.count(v)})"
    refuse(f"opaque value used in a condition: {v}")


def as_nat(e, F):
    t, v = e
    if t == "nat":
        return v
    refuse(f"expected a number, got {t}: {v}")


# ------------------------------------------------------------------------------------------------
# (a) Python side

def py_cond(node, F):
    """ast expression -> symbolic"""
    if isinstance(node, ast.BoolOp):
        parts = [as_bool(py_cond(v, F), F) for v in node.values]
        op = " && " if isinstance(node.op, ast.And) else " || "
        return ("bool", "(" + op.join(parts) + ")")
    if isinstance(node, ast.UnaryOp) and isinstance(node.op, ast.Not):
        return ("bool", f"(negb {as_bool(py_cond(node.operand, F), F)})")
    if isinstance(node, ast.Compare) and len(node.ops) == 1:
        a = as_nat(py_cond(node.left, F), F)
        b = as_nat(py_cond(node.comparators[0], F), F)
        op = node.ops[0]
        table = {ast.Gt: f"({b} <? {a})", ast.Lt: f"({a} <? {b})", ast.GtE: f"({b} <=? {a})",
                 ast.LtE: f"({a} <=? {b})", ast.Eq: f"({a} =? {b})", ast.NotEq: f"(negb ({a} =? {b}))"}
        if type(op) not in table:
            refuse("comparison operator " + ast.dump(op))
        return ("bool", table[type(op)])
    if isinstance(node, ast.BinOp) and isinstance(node.op, ast.Add):
        return ("nat", f"({as_nat(py_cond(node.left, F), F)} + {as_nat(py_cond(node.right, F), F)})")
    if isinstance(node, ast.Constant) and isinstance(node.value, int) and not isinstance(node.value, bool) \
            and node.value >= 0:
        return ("nat", str(node.value))
    if isinstance(node, ast.Call) and isinstance(node.func, ast.Name) and node.func.id == "len" \
            and len(node.args) == 1 and not node.keywords:
        t, v = py_cond(node.args[0], F)
        if t != "coll":
            refuse("len() of something that is not project.<collection>")
        return ("nat", F.count(v))
    if isinstance(node, ast.Attribute) and isinstance(node.value, ast.Name):
        if node.value.id == "project":
            return ("coll", node.attr)
        if node.value.id == "settings":
            return ("bool", F.flag(node.attr))
    refuse("python condition outside the subset: " + ast.unparse(node))


def is_self_lists_append(call):
    return (isinstance(call, ast.Call) and isinstance(call.func, ast.Attribute) and call.func.attr == "append"
            and isinstance(call.func.value, ast.Attribute) and call.func.value.attr == "lists"
            and isinstance(call.func.value.value, ast.Name) and call.func.value.value.id == "self")


def python_side(F):
    src = (REPO / "ford" / "output.py").read_text()
    tree = ast.parse(src)
    classes = {n.name: n for n in tree.body if isinstance(n, ast.ClassDef)}
    if "Documentation" not in classes or "ListPage" not in classes:
        refuse("classes Documentation / ListPage not found")
    # ListPage.outfile must be out_dir / "lists" / out_page
    lp = classes["ListPage"]
    outfile = [n for n in lp.body if isinstance(n, ast.FunctionDef) and n.name == "outfile"]
    if len(outfile) != 1 or ast.unparse(outfile[0].body[-1]) != "return self.out_dir / 'lists' / self.out_page":
        refuse("ListPage.outfile is not `self.out_dir / 'lists' / self.out_page`")
    out_page = {}
    for name, cls in classes.items():
        if any(isinstance(b, ast.Name) and b.id == "ListPage" for b in cls.bases):
            vals = [n.value.value for n in cls.body if isinstance(n, ast.Assign) and len(n.targets) == 1
                    and isinstance(n.targets[0], ast.Name) and n.targets[0].id == "out_page"
                    and isinstance(n.value, ast.Constant) and isinstance(n.value.value, str)]
            if len(vals) != 1:
                refuse(f"{name}.out_page is not a single string literal")
            if any(isinstance(n, ast.FunctionDef) and n.name == "outfile" for n in cls.body):
                refuse(f"{name} overrides outfile")
            out_page[name] = vals[0]
    init = [n for n in classes["Documentation"].body if isinstance(n, ast.FunctionDef) and n.name == "__init__"]
    if len(init) != 1:
        refuse("Documentation.__init__ not found")
    init = init[0]
    total_appends = sum(1 for n in ast.walk(init) if is_self_lists_append(n))
    list_pages = []
    for n in ast.walk(init):
        if isinstance(n, ast.If) and any(is_self_lists_append(getattr(b, "value", None)) for b in n.body):
            if len(n.body) != 1 or n.orelse:
                refuse("`if ...: self.lists.append(...)` with extra statements / else: " + ast.unparse(n)[:120])
            call = n.body[0].value
            if len(call.args) != 1 or not isinstance(call.args[0], ast.Call) \
                    or not isinstance(call.args[0].func, ast.Name) or call.args[0].func.id not in out_page:
                refuse("self.lists.append of something that is not a ListPage subclass instance")
            list_pages.append((out_page[call.args[0].func.id], as_bool(py_cond(n.test, F), F),
                               ast.unparse(n.test)))
    if len(list_pages) != total_appends:
        refuse(f"{total_appends} self.lists.append calls, {len(list_pages)} understood (unconditional or nested?)")
    if len({p for p, _, _ in list_pages}) != len(list_pages):
        refuse("a list page is appended twice")
    # the conditions must sit directly in the function body or its try-body (no enclosing if/for/with)
    def direct(stmts):
        n = 0
        for st in stmts:
            if isinstance(st, ast.If) and any(is_self_lists_append(getattr(b, "value", None)) for b in st.body):
                n += 1
            elif isinstance(st, ast.Try):
                n += direct(st.body)
        return n
    if direct(init.body) != len(list_pages):
        refuse("a list-page condition is nested in another control structure")
    # entity pages
    ent = []
    maps = [n for n in ast.walk(init) if isinstance(n, (ast.Assign, ast.AnnAssign))
            and isinstance(getattr(n, "target", None) or n.targets[0], ast.Name)
            and (getattr(n, "target", None) or n.targets[0]).id == "entity_list_page_map"]
    if len(maps) != 1 or not isinstance(maps[0].value, ast.List):
        refuse("entity_list_page_map is not one list literal")
    for el in maps[0].value.elts:
        if not (isinstance(el, ast.Tuple) and len(el.elts) == 2):
            refuse("entity_list_page_map element is not a pair")
        t, v = py_cond(el.elts[0], F)
        if t != "coll":
            refuse("entity_list_page_map key is not project.<collection>")
        ent.append((v, "true", "always"))
    n_app = 0
    for n in ast.walk(init):
        if isinstance(n, ast.Call) and isinstance(n.func, ast.Attribute) and n.func.attr == "append" \
                and isinstance(n.func.value, ast.Name) and n.func.value.id == "entity_list_page_map":
            n_app += 1
    for n in ast.walk(init):
        if isinstance(n, ast.If) and len(n.body) == 1 and isinstance(n.body[0], ast.Expr) \
                and isinstance(n.body[0].value, ast.Call) and isinstance(n.body[0].value.func, ast.Attribute) \
                and n.body[0].value.func.attr == "append" and isinstance(n.body[0].value.func.value, ast.Name) \
                and n.body[0].value.func.value.id == "entity_list_page_map" and not n.orelse:
            arg = n.body[0].value.args[0]
            if not (isinstance(arg, ast.Tuple) and len(arg.elts) == 2):
                refuse("entity_list_page_map.append of a non-pair")
            t, v = py_cond(arg.elts[0], F)
            if t != "coll":
                refuse("entity_list_page_map.append key is not project.<collection>")
            ent.append((v, as_bool(py_cond(n.test, F), F), ast.unparse(n.test)))
            n_app -= 1
    if n_app != 0:
        refuse("entity_list_page_map.append outside a simple `if`")
    # the loop that turns the map into pages must be unconditional
    loops = [n for n in ast.walk(init) if isinstance(n, ast.For) and isinstance(n.iter, ast.Name)
             and n.iter.id == "entity_list_page_map"]
    if len(loops) != 1 or "self.docs.append(page_class(self.data, project, item))" not in ast.unparse(loops[0]):
        refuse("the loop over entity_list_page_map changed")
    # index / search pages always written: writeout chains [self.index, self.search]
    wo = [n for n in classes["Documentation"].body if isinstance(n, ast.FunctionDef) and n.name == "writeout"]
    if len(wo) != 1 or "chain(self.docs, self.lists, self.pagetree, [self.index, self.search])" not in ast.unparse(wo[0]):
        refuse("Documentation.writeout no longer writes docs+lists+pagetree+index+search")
    # Project.allfiles == files ++ extra_files
    ptree = ast.parse((REPO / "ford" / "fortran_project.py").read_text())
    pcls = [n for n in ptree.body if isinstance(n, ast.ClassDef) and n.name == "Project"]
    af = [n for n in (pcls[0].body if pcls else []) if isinstance(n, ast.FunctionDef) and n.name == "allfiles"]
    if len(af) != 1:
        refuse("Project.allfiles not found")
    body = [ast.unparse(b) for b in af[0].body if not (isinstance(b, ast.Expr) and isinstance(b.value, ast.Constant))]
    if body != ["for f in self.files:\n    yield f", "for f in self.extra_files:\n    yield f"]:
        refuse("Project.allfiles is no longer files followed by extra_files")
    F.count("files"), F.count("extra_files")
    return list_pages, ent


# ------------------------------------------------------------------------------------------------
# (b) Jinja side

TOK = re.compile(r"""\s*(?:(?P<num>\d+)|(?P<name>[A-Za-z_][A-Za-z_0-9]*)|(?P<str>'[^']*'|"[^"]*")|(?P<op>==|!=|>=|<=|[()|.+\[\]<>/,*-]))""")


def tokenize(expr):
    pos, out = 0, []
    expr = expr.strip()
    while pos < len(expr):
        m = TOK.match(expr, pos)
        if not m or m.end() == pos:
            refuse("cannot tokenise jinja expression: " + expr)
        pos = m.end()
        for k in ("num", "name", "str", "op"):
            if m.group(k) is not None:
                out.append((k, m.group(k)))
    return out


class JParser:
    """recursive-descent reader for the condition subset"""

    def __init__(self, toks, env, F, src):
        self.t, self.i, self.env, self.F, self.src = toks, 0, env, F, src

    def peek(self, k=0):
        return self.t[self.i + k] if self.i + k < len(self.t) else (None, None)

    def eat(self, val=None):
        tok = self.peek()
        if tok[0] is None or (val is not None and tok[1] != val):
            refuse(f"jinja expression outside the subset near token {self.i}: {self.src}")
        self.i += 1
        return tok

    def parse(self):
        e = self.p_or()
        if self.i != len(self.t):
            refuse("trailing tokens in jinja expression: " + self.src)
        return e

    def p_or(self):
        e = self.p_and()
        while self.peek() == ("name", "or"):
            self.eat()
            r = self.p_and()
            e = ("bool", f"({as_bool(e, self.F)} || {as_bool(r, self.F)})")
        return e

    def p_and(self):
        e = self.p_not()
        while self.peek() == ("name", "and"):
            self.eat()
            r = self.p_not()
            e = ("bool", f"({as_bool(e, self.F)} && {as_bool(r, self.F)})")
        return e

    def p_not(self):
        if self.peek() == ("name", "not"):
            self.eat()
            return ("bool", f"(negb {as_bool(self.p_not(), self.F)})")
        return self.p_cmp()

    def p_cmp(self):
        e = self.p_sum()
        k, v = self.peek()
        if k == "op" and v in ("==", "!=", ">", "<", ">=", "<="):
            self.eat()
            r = self.p_sum()
            a, b = as_nat(e, self.F), as_nat(r, self.F)
            return ("bool", {"==": f"({a} =? {b})", "!=": f"(negb ({a} =? {b}))", ">": f"({b} <? {a})",
                             "<": f"({a} <? {b})", ">=": f"({b} <=? {a})", "<=": f"({a} <=? {b})"}[v])
        if (k, v) == ("name", "is"):
            self.eat()
            neg = False
            if self.peek() == ("name", "not"):
                self.eat()
                neg = True
            test = self.eat()[1]
            if test != "more_than_one":
                refuse("jinja test outside the subset: " + test)
            r = f"(1 <? {as_nat(e, self.F)})"
            return ("bool", f"(negb {r})" if neg else r)
        return e

    def p_sum(self):
        e = self.p_atom()
        while self.peek() == ("op", "+"):
            self.eat()
            r = self.p_atom()
            e = ("nat", f"({as_nat(e, self.F)} + {as_nat(r, self.F)})")
        return e

    def p_atom(self):
        k, v = self.peek()
        if k == "num":
            self.eat()
            return ("nat", v)
        if (k, v) == ("op", "("):
            self.eat()
            e = self.p_or()
            self.eat(")")
            return self.p_filters(e)
        if k == "name" and v not in ("and", "or", "not", "is", "if", "else", "in"):
            self.eat()
            if v == "project":
                self.eat(".")
                attr = self.eat()
                if attr[0] != "name":
                    refuse("project.<what?> in " + self.src)
                e = ("coll", attr[1])
            elif v in self.env:
                e = self.env[v]
            else:
                e = ("var", v)
            return self.p_filters(e)
        refuse("jinja expression outside the subset: " + self.src)

    def p_filters(self, e):
        while self.peek() == ("op", "|"):
            self.eat()
            f = self.eat()[1]
            if f == "length":
                if e[0] != "coll":
                    refuse("|length of something that is not project.<collection>: " + self.src)
                e = ("nat", self.F.count(e[1]))
            elif f == "int":
                if e[0] == "var":
                    e = ("nat", self.F.num(e[1]))
                elif e[0] != "nat":
                    refuse("|int of a non-number: " + self.src)
            else:
                refuse("jinja filter outside the subset: " + f)
        if e[0] == "var":               # bare template variable: its truthiness
            e = ("bool", self.F.flag(e[1]))
        return e


def jexpr(text, env, F):
    return JParser(tokenize(text), env, F, text).parse()


TAG = re.compile(r"\{%-?\s*(.*?)\s*-?%\}|\{#.*?#\}", re.S)
LINK = re.compile(r"<a\b[^>]*?\bhref=\"([^\"]*)\"[^>]*>(.*?)</a>", re.S)
PU = "{{ project_url }}/"
SINGLE = re.compile(r"^\{\{\s*project\.(\w+)\[0\]\.get_url\(\)\s*\}\}$")


def jinja_side(template, F):
    text = (REPO / "ford" / "templates" / template).read_text()
    # links of interest, with their start offsets
    links = []
    for m in LINK.finditer(text):
        href, label = m.group(1), " ".join(m.group(2).split())
        if not href.startswith(PU):
            if "lists/" in href or "get_url" in href:
                refuse(f"{template}: link to a list/entity page not below project_url: {href}")
            continue
        rest = href[len(PU):]
        if re.fullmatch(r"lists/[\w.-]+\.html", rest):
            links.append((m.start(), ("list", rest[len("lists/"):]), label))
        elif SINGLE.match(rest):
            links.append((m.start(), ("single", SINGLE.match(rest).group(1)), label))
        elif "{" in rest:
            refuse(f"{template}: link target outside the subset: {href}")
        else:
            links.append((m.start(), ("static", rest), label))
    if text.count("lists/") != sum(1 for _, (k, _), _ in links if k == "list"):
        refuse(f"{template}: an occurrence of 'lists/' is not inside a recognised <a href>")
    if len(re.findall(r"\[0\]\.get_url\(\)", text)) != sum(1 for _, (k, _), _ in links if k == "single"):
        refuse(f"{template}: a `[0].get_url()` is not inside a recognised <a href>")
    links.sort()
    out = []
    aux = []            # (coq name, type, body) of {% set %} variables, in order
    stack = []          # frames: ["if", [negated earlier branch conds], current cond] | ["for"/"macro"/"block", ...]
    env = {}
    li = 0

    def pathcond():
        cs = []
        for fr in stack:
            if fr[0] == "if":
                cs += fr[1] + [fr[2]]
        return cs

    def flush(upto):
        nonlocal li
        while li < len(links) and links[li][0] < upto:
            pos, target, label = links[li]
            li += 1
            if target[0] == "static":
                continue
            if any(fr[0] in ("for", "macro", "call", "filter") for fr in stack):
                refuse(f"{template}: nav link {target} inside a loop or macro")
            cs = pathcond()
            out.append((template, target, label, "(" + " && ".join(cs) + ")" if cs else "true"))

    for m in TAG.finditer(text):
        flush(m.start())
        if m.group(1) is None:
            continue            # comment
        stmt = m.group(1)
        head = stmt.split(None, 1)[0] if stmt else ""
        arg = stmt[len(head):].strip()
        if head == "if":
            stack.append(["if", [], as_bool_safe(arg, env, F)])
        elif head == "elif":
            if not stack or stack[-1][0] != "if":
                refuse(f"{template}: elif without if")
            fr = stack[-1]
            fr[1].append(neg(fr[2]))
            fr[2] = as_bool_safe(arg, env, F)
        elif head == "else":
            if not stack or stack[-1][0] not in ("if", "for"):
                refuse(f"{template}: else without if")
            fr = stack[-1]
            if fr[0] == "if":
                fr[1].append(neg(fr[2]))
                fr[2] = "true"
        elif head == "endif":
            if not stack or stack.pop()[0] != "if":
                refuse(f"{template}: unbalanced endif")
        elif head in ("for", "macro", "block", "call", "filter"):
            stack.append([head])
        elif head in ("endfor", "endmacro", "endblock", "endcall", "endfilter"):
            if not stack or stack.pop()[0] != head[3:]:
                refuse(f"{template}: unbalanced {head}")
        elif head == "set":
            mm = re.fullmatch(r"(\w+)\s*=\s*(.*)", arg, re.S)
            if not mm:
                refuse(f"{template}: block set / tuple set outside the subset: {stmt}")
            var, rhs = mm.group(1), mm.group(2)
            if any(fr[0] in ("for", "macro", "call", "filter") for fr in stack):
                continue            # local to the loop / macro: cannot reach a nav condition (those refuse)
            try:
                val = jexpr(rhs, env, F)
                if val[0] == "coll":
                    val = ("opaque", rhs)
            except Refuse as e:
                val = ("opaque", f"{var} := {rhs} ({e})")
            cs = pathcond()
            if any("OPAQUE[" in c for c in cs):
                val = ("opaque", f"{var} set below a condition outside the subset")
            elif cs and val[0] != "opaque":
                old = env.get(var)
                if old is None or old[0] != val[0]:
                    val = ("opaque", f"{var} set conditionally without a same-typed earlier value")
                else:
                    val = (val[0], f"(if {' && '.join(cs)} then {val[1]} else {old[1]})")
            if val[0] in ("nat", "bool"):
                nm = f"x_{template.split('.')[0]}_{var}_{len(aux)}"
                aux.append((nm, val[0], val[1]))
                val = (val[0], f"{nm} c")
            env[var] = val
        elif head in ("extends", "import", "include", "from"):
            if head == "include":
                refuse(f"{template}: include")
        else:
            refuse(f"{template}: jinja statement outside the subset: {stmt[:60]}")
    flush(len(text) + 1)
    if stack:
        refuse(f"{template}: unbalanced blocks at end of file")
    return out, sum(1 for _, (k, _), _ in links if k == "static"), aux


def neg(c):
    return f"(negb {c})"


class OpaqueCond(str):
    pass


def as_bool_safe(arg, env, F):
    """condition of an {% if %}: conditions we cannot read become poison that only matters when a nav
    link sits below them"""
    try:
        return as_bool(jexpr(arg, env, F), F)
    except Refuse as e:
        return OpaqueCond(f"OPAQUE[{arg}: {e}]")


# ------------------------------------------------------------------------------------------------

def coq_string(x):
    assert all(32 <= ord(ch) < 127 for ch in x), x
    return '(s "' + x.replace('"', '""') + '")'


def extract():
    """-> dict with everything the generated file (and the harness) needs"""
    F = Fields()
    list_pages, ent_pages = python_side(F)
    links = []
    nstatic = 0
    aux = []
    for t in TEMPLATES:
        ls, ns, ax = jinja_side(t, F)
        links += ls
        nstatic += ns
        aux += ax
    # keep only the {% set %} variables that a nav condition (transitively) reads
    need, frontier = set(), " ".join(c for *_, c in links)
    while True:
        new = {n for n in re.findall(r"\b(x_\w+) c\b", frontier)} - need
        if not new:
            break
        need |= new
        frontier = " ".join(b for n, _, b in aux if n in new)
    aux = [a for a in aux if a[0] in need]
    for (t, target, label, cond) in links:
        if "OPAQUE[" in cond:
            refuse(f"{t}: nav link {target} sits below a condition outside the subset: {cond}")
        if target[0] == "single":
            F.count(target[1])
    others = []
    for p in sorted((REPO / "ford" / "templates").glob("*.html")):
        if p.name not in TEMPLATES and "lists/" in p.read_text():
            others.append(p.name)
    if others:
        refuse("links to list pages in templates this translator does not read: " + ", ".join(others))
    pages = {p for p, _, _ in list_pages}
    for (t, target, label, cond) in links:
        if target[0] == "list" and target[1] not in pages:
            # still representable (page never exists): keep, the theorem will refute it
            pass
    used = " ".join([c for _, c, _ in list_pages] + [c for _, c, _ in ent_pages] + [c for *_, c in links]
                    + [b for _, _, b in aux])
    counts = set(re.findall(r"\bn_(\w+) c\b", used)) | {"files", "extra_files"} | \
        {tg[1] for _, tg, _, _ in links if tg[0] == "single"}
    flags = set(re.findall(r"\bf_(\w+) c\b", used))
    nums = set(re.findall(r"\bv_(\w+) c\b", used))
    return {"counts": sorted(counts), "flags": sorted(flags), "nums": sorted(nums),
            "list_pages": list_pages, "entity_pages": ent_pages, "links": links, "static_links": nstatic,
            "aux": aux}


def emit(x):
    L = []
    A = L.append
    A("(* Gen/NavConds.v -- GENERATED by translate/t4_navconds.py from ford/output.py, ford/fortran_project.py,")
    A("   ford/templates/base.html and ford/templates/index.html.  Do not edit. *)")
    A("From Ford Require Import Base.Str.")
    A("")
    A("(* sizes of project collections (n_), truthiness of template/settings variables (f_), numbers (v_) *)")
    fields = [f"n_{c} : nat" for c in x["counts"]] + [f"f_{f} : bool" for f in x["flags"]] + \
             [f"v_{n} : nat" for n in x["nums"]]
    A("Record counts := mk_counts { " + "; ".join(fields) + " }.")
    A("(* a concrete project shape used for witnesses: one source file holding one module, sources shown,")
    A("   every other collection empty, every other flag off, numbers 10 *)")
    vals = [("1" if c in ("files", "modules") else "0") for c in x["counts"]] + \
           [("true" if f == "incl_src" else "false") for f in x["flags"]] + ["10" for _ in x["nums"]]
    A("Definition sample_one_file : counts := mk_counts " + " ".join(vals) + ".")
    A("")
    A("(* (a) Documentation.__init__: list page <name> is written iff ... *)")
    for i, (page, cond, src) in enumerate(x["list_pages"]):
        A(f"(* python: {src} *)")
        A(f"Definition lp_{i} (c : counts) : bool := {cond}.")
    A("Definition list_pages : list (str * (counts -> bool)) :=")
    A("  [" + ";\n   ".join(f"({coq_string(p)}, lp_{i})" for i, (p, _, _) in enumerate(x["list_pages"])) + "].")
    A("")
    A("(* entity pages: collection, its size, condition under which its members get pages *)")
    ent = []
    seen = set()
    for (coll, cond, src) in x["entity_pages"]:
        if coll == "allfiles":
            members = ["files", "extra_files"]
        else:
            members = [coll]
        for mname in members:
            if mname in x["counts"] and mname not in seen:
                seen.add(mname)
                ent.append(f"({coq_string(mname)}, (fun c : counts => n_{mname} c), (fun c : counts => {cond}))")
    A("Definition entity_pages : list (str * (counts -> nat) * (counts -> bool)) :=")
    A("  [" + ";\n   ".join(ent) + "].")
    A("")
    A("(* (b) navigation links of base.html / index.html with their path conditions *)")
    A("Inductive target := TList (page : str) | TSingle (collection : str).")
    A("Record navlink := mk_link { nl_template : str; nl_label : str; nl_target : target; nl_cond : counts -> bool }.")
    A("(* template variables assigned with {% set %}, in template order *)")
    for (nm, ty, body) in x["aux"]:
        A(f"Definition {nm} (c : counts) : {ty} := {body}.")
    for i, (t, target, label, cond) in enumerate(x["links"]):
        A(f"Definition nc_{i} (c : counts) : bool := {cond}.")
    items = []
    for i, (t, target, label, cond) in enumerate(x["links"]):
        tg = f"(TList {coq_string(target[1])})" if target[0] == "list" else f"(TSingle {coq_string(target[1])})"
        items.append(f"mk_link {coq_string(t)} {coq_string(label)} {tg} nc_{i}")
    A("Definition nav_links : list navlink :=")
    A("  [" + ";\n   ".join(items) + "].")
    names = [f"lp_{i}" for i in range(len(x["list_pages"]))] + [nm for nm, _, _ in x["aux"]] + \
            [f"nc_{i}" for i in range(len(x["links"]))]
    A("#[global] Hint Unfold " + " ".join(names) + " : navconds.")
    A("")
    A(f"(* links below project_url to always-written files (index.html, ...) seen and skipped: {x['static_links']} *)")
    return "\n".join(L) + "\n"


def main():
    try:
        text = emit(extract())
    except Refuse as e:
        print("t4_navconds: REFUSED: " + str(e))
        return 1
    except Exception as e:  # noqa
        print(f"t4_navconds: FAILED: {type(e).__name__}: {e}")
        return 1
    OUT.parent.mkdir(parents=True, exist_ok=True)
    if not OUT.exists() or OUT.read_text() != text:
        OUT.write_text(text)
    return 0


if __name__ == "__main__":
    sys.exit(main())
