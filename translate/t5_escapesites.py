#!/usr/bin/env python
"""T5 -- regenerate coq/theories/Gen/EscapeSites.v from the working tree (VERIF_REPO, default /repo).

For every `{{ EXPR }}` of ford/templates/macros.html, *_page.html and *_list.html it emits one site
record: key (template:expr#occurrence), template, line, the root variable, the *field* that is
printed (last attribute of the path; `x.get_url()` for a method call; the variable itself when the
expression is a bare name), the filters applied in order, and whether the expression sits inside an
HTML attribute value or in element content.  Calls of template macros (`proc_line(proc)`,
`macros.variable_list(...)`, `loop(...)`) print nothing themselves -- the expressions of the macro
body are sites of their own -- and are only counted.

Also emitted: `text_escaped_at_source` (the display properties FortranVariable.full_type /
full_declaration, when an ast check of ford/sourceform.py finds that every interpolated piece of source
text goes through `_esc`, the text-level escape of & < >), `autoescape` (the keyword of jinja2.Environment(...) in ford/output.py, false when
absent), the registered custom filters.

Fail closed (exit 1, nothing written): an expression that is neither a macro call nor
`path (| filter)*` with path = NAME(.NAME | [literal] | ())* [+ NUMBER]; an unknown filter; a call
of something that is not a macro; non-ASCII text.
"""
import ast
import os
import pathlib
import re
import sys

REPO = pathlib.Path(os.environ.get("VERIF_REPO", "/repo"))
OUT = pathlib.Path(__file__).resolve().parent.parent / "coq" / "theories" / "Gen" / "EscapeSites.v"
BUILTIN_FILTERS = {"e", "escape", "join", "lower", "upper", "striptags", "trim", "int", "length", "safe",
                   "title", "capitalize", "string", "list", "first", "last", "sort", "forceescape", "urlencode"}


class Refuse(Exception):
    pass


def refuse(msg):
    raise Refuse(msg)


def python_side():
    src = (REPO / "ford" / "output.py").read_text()
    tree = ast.parse(src)
    envs = [n for n in ast.walk(tree) if isinstance(n, ast.Assign) and len(n.targets) == 1
            and isinstance(n.targets[0], ast.Name) and n.targets[0].id == "env"]
    if len(envs) != 1 or not (isinstance(envs[0].value, ast.Call)
                              and ast.unparse(envs[0].value.func) == "jinja2.Environment"):
        refuse("ford/output.py: `env = jinja2.Environment(...)` not found exactly once")
    auto = False
    for kw in envs[0].value.keywords:
        if kw.arg is None:
            refuse("jinja2.Environment(**kwargs)")
        if kw.arg == "autoescape":
            if not isinstance(kw.value, ast.Constant) or not isinstance(kw.value.value, bool):
                refuse("autoescape is not a boolean literal")
            auto = kw.value.value
    filters = set()
    for n in ast.walk(tree):
        if isinstance(n, ast.Assign) and len(n.targets) == 1 and isinstance(n.targets[0], ast.Subscript):
            t = n.targets[0]
            if ast.unparse(t.value) == "env.filters":
                if not (isinstance(t.slice, ast.Constant) and isinstance(t.slice.value, str)):
                    refuse("env.filters[...] with a non-literal key")
                filters.add(t.slice.value)
        if isinstance(n, ast.Attribute) and n.attr == "autoescape" and ast.unparse(n.value) == "env":
            refuse("env.autoescape is assigned / read outside the constructor")
    return auto, filters


ESC_BODY = "return str(text).replace('&', '&amp;').replace('<', '&lt;').replace('>', '&gt;')"
RAW_OK = {"full_type": {"', '.join(parameter_parts)", "proto"},
          "full_declaration": {"self.full_type", "''.join(attributes)"}}


def source_side():
    """which display properties of FortranVariable escape the source text they are built from:
    every {interpolation} of the property body is either `_esc(...)` or one of the known pieces that are
    markup / already escaped, and `_esc` is the text-level escape of & < >.  -> list of property names"""
    tree = ast.parse((REPO / "ford" / "sourceform.py").read_text())
    funcs = {n.name: n for n in tree.body if isinstance(n, ast.FunctionDef)}
    esc = funcs.get("_esc")
    if esc is None:
        return []
    body = [b for b in esc.body if not (isinstance(b, ast.Expr) and isinstance(b.value, ast.Constant))]
    if len(esc.args.args) != 1 or esc.args.args[0].arg != "text" or len(body) != 1 or ast.unparse(body[0]) != ESC_BODY:
        return []
    cls = [n for n in tree.body if isinstance(n, ast.ClassDef) and n.name == "FortranVariable"]
    if len(cls) != 1:
        refuse("class FortranVariable not found exactly once")
    out = []
    for prop in ("full_type", "full_declaration"):
        fn = [n for n in cls[0].body if isinstance(n, ast.FunctionDef) and n.name == prop]
        if len(fn) != 1:
            refuse(f"FortranVariable.{prop} not found")
        ok, used = True, False
        for node in ast.walk(fn[0]):
            if isinstance(node, ast.FormattedValue):
                v = node.value
                if isinstance(v, ast.Call) and isinstance(v.func, ast.Name) and v.func.id == "_esc" and len(v.args) == 1:
                    used = True
                elif ast.unparse(v) not in RAW_OK[prop]:
                    ok = False
            # source text must not reach the result by other means than an f-string
            if isinstance(node, ast.BinOp) and isinstance(node.op, ast.Add) and not isinstance(node.right, ast.JoinedStr) \
                    and not isinstance(node.left, ast.JoinedStr):
                ok = False
        if ok and used and (prop != "full_declaration" or "full_type" in out):
            out.append(prop)
    return out


NAME = r"[A-Za-z_][A-Za-z_0-9]*"
PATH_RE = re.compile(rf"^({NAME})((?:\.{NAME}|\[(?:\d+|'[^']*'|\"[^\"]*\")\]|\(\))*)(\s*\+\s*\d+)?$")
STEP_RE = re.compile(rf"\.({NAME})|\[(\d+|'[^']*'|\"[^\"]*\")\]|(\(\))")
CALL_RE = re.compile(rf"^((?:macros\.)?{NAME})\((.*)\)$", re.S)
FILTER_RE = re.compile(rf"^({NAME})(?:\((.*)\))?$", re.S)


def split_pipes(expr):
    """split at top-level '|' (outside parentheses / brackets / quotes)"""
    parts, depth, cur, q = [], 0, "", None
    for ch in expr:
        if q:
            cur += ch
            if ch == q:
                q = None
            continue
        if ch in "'\"":
            q = ch
            cur += ch
        elif ch in "([":
            depth += 1
            cur += ch
        elif ch in ")]":
            depth -= 1
            cur += ch
        elif ch == "|" and depth == 0:
            parts.append(cur)
            cur = ""
        else:
            cur += ch
    parts.append(cur)
    if depth != 0 or q:
        refuse("unbalanced expression: " + expr)
    return [p.strip() for p in parts]


def balanced(text):
    depth, q = 0, None
    for ch in text:
        if q:
            if ch == q:
                q = None
            continue
        if ch in "'\"":
            q = ch
        elif ch in "([":
            depth += 1
        elif ch in ")]":
            depth -= 1
            if depth < 0:
                return False
    return depth == 0 and q is None


def parse_expr(expr, macros, filters, where):
    """-> ("call", callee) | ("print", root, field, [filters])"""
    parts = split_pipes(expr)
    head, fl = parts[0], parts[1:]
    names = []
    for f in fl:
        m = FILTER_RE.match(f)
        if not m or (m.group(2) is not None and not balanced(m.group(2))):
            refuse(f"{where}: filter outside the subset: {f!r} in {{{{ {expr} }}}}")
        if m.group(1) not in filters:
            refuse(f"{where}: unknown filter {m.group(1)!r} in {{{{ {expr} }}}}")
        names.append(m.group(1))
    m = CALL_RE.match(head)
    if m and balanced(m.group(2)) and not PATH_RE.match(head):
        callee = m.group(1)
        base = callee.split(".")[-1]
        if base not in macros and callee != "loop":
            refuse(f"{where}: call of {callee!r}, which is not a template macro: {{{{ {expr} }}}}")
        if names:
            refuse(f"{where}: filter applied to a macro call: {{{{ {expr} }}}}")
        return ("call", callee)
    m = PATH_RE.match(head)
    if not m:
        refuse(f"{where}: expression outside the subset: {{{{ {expr} }}}}")
    root, steps = m.group(1), m.group(2)
    field = root
    for sm in STEP_RE.finditer(steps):
        if sm.group(1):
            field = sm.group(1)
        elif sm.group(2):
            field = field + "[" + sm.group(2).strip("'\"") + "]"
        else:
            field = field + "()"
    return ("print", root, field, names)


EXPR_RE = re.compile(r"\{\{-?\s*(.*?)\s*-?\}\}", re.S)
STMT_RE = re.compile(r"\{%.*?%\}|\{#.*?#\}", re.S)


def in_attribute(text, pos):
    """is offset pos inside an HTML tag (i.e. in an attribute value)?"""
    before = STMT_RE.sub(lambda m: " " * len(m.group()), text[:pos])
    before = EXPR_RE.sub(lambda m: " " * len(m.group()), before)
    return before.rfind("<") > before.rfind(">")


def extract():
    auto, custom = python_side()
    filters = BUILTIN_FILTERS | custom
    tdir = REPO / "ford" / "templates"
    mtext = (tdir / "macros.html").read_text()
    macros = set(re.findall(rf"\{{%-?\s*macro\s+({NAME})\s*\(", mtext))
    if not macros:
        refuse("no macros found in macros.html")
    files = ["macros.html"] + sorted(p.name for p in tdir.glob("*_page.html")) + \
        sorted(p.name for p in tdir.glob("*_list.html"))
    sites, ncalls, occ = [], 0, {}
    for fn in files:
        text = (tdir / fn).read_text()
        if not all(ord(c) < 128 for c in text):
            bad = sorted({c for c in text if ord(c) >= 128})
            refuse(f"{fn}: non-ASCII characters {bad!r}")
        local = set(re.findall(rf"\{{%-?\s*macro\s+({NAME})\s*\(", text)) | macros
        nocomment = re.sub(r"\{#.*?#\}", lambda m: " " * len(m.group()), text, flags=re.S)
        for m in EXPR_RE.finditer(nocomment):
            expr = " ".join(m.group(1).split())
            line = text.count("\n", 0, m.start()) + 1
            r = parse_expr(expr, local, filters, f"{fn}:{line}")
            if r[0] == "call":
                ncalls += 1
                continue
            _, root, field, names = r
            k = (fn, expr)
            occ[k] = occ.get(k, 0) + 1
            sites.append({"key": f"{fn}:{expr}#{occ[k]}", "template": fn, "line": line, "expr": expr,
                          "root": root, "field": field, "filters": names,
                          "attr": in_attribute(nocomment, m.start())})
    return {"autoescape": auto, "custom_filters": sorted(custom), "sites": sites, "macro_calls": ncalls,
            "templates": files, "text_escaped_at_source": source_side()}


def cstr(x):
    if not all(32 <= ord(c) < 127 for c in x):
        refuse(f"string outside printable ASCII: {x!r}")
    return '(s "' + x.replace('"', '""') + '")'


def emit(x):
    L = []
    A = L.append
    A("(* Gen/EscapeSites.v -- GENERATED by translate/t5_escapesites.py from ford/output.py and")
    A("   ford/templates/{macros,*_page,*_list}.html.  Do not edit. *)")
    A("From Ford Require Import Base.Str.")
    A("")
    A("(* jinja2.Environment(... autoescape=?) in ford/output.py *)")
    A(f"Definition autoescape : bool := {'true' if x['autoescape'] else 'false'}.")
    A("Definition custom_filters : list str := [" + "; ".join(cstr(f) for f in x["custom_filters"]) + "].")
    A("(* display properties of FortranVariable (ford/sourceform.py) that escape & < > in the source text they are")
    A("   built from (every interpolation is _esc(...) or a piece that is markup / already escaped) *)")
    A("Definition text_escaped_at_source : list str := [" +
      "; ".join(cstr(f) for f in x["text_escaped_at_source"]) + "].")
    A("")
    A("Inductive context := InText | InAttribute.")
    A("Record site := mk_site { st_key : str; st_template : str; st_line : nat; st_root : str; st_field : str;")
    A("                         st_filters : list str; st_context : context }.")
    A("")
    A("Definition sites : list site :=")
    items = []
    for s_ in x["sites"]:
        fl = "[" + "; ".join(cstr(f) for f in s_["filters"]) + "]"
        items.append(f"mk_site {cstr(s_['key'])} {cstr(s_['template'])} {s_['line']} {cstr(s_['root'])} "
                     f"{cstr(s_['field'])} {fl} {'InAttribute' if s_['attr'] else 'InText'}")
    A("  [" + ";\n   ".join(items) + "].")
    A("")
    A(f"(* {len(x['sites'])} printing sites in {len(x['templates'])} templates; {x['macro_calls']} macro calls skipped *)")
    return "\n".join(L) + "\n"


def main():
    try:
        text = emit(extract())
    except Refuse as e:
        print("t5_escapesites: REFUSED: " + str(e))
        return 1
    except Exception as e:  # noqa
        print(f"t5_escapesites: FAILED: {type(e).__name__}: {e}")
        return 1
    OUT.parent.mkdir(parents=True, exist_ok=True)
    if not OUT.exists() or OUT.read_text() != text:
        OUT.write_text(text)
    return 0


if __name__ == "__main__":
    sys.exit(main())
