#!/usr/bin/env python
"""C16 translator -- regenerate coq/theories/Gen/C16Tables.v from the working tree (VERIF_REPO, default /repo).

Read with `ast` only (nothing is imported or executed):
  ford/external_project.py  ATTRIBUTES (list of str), ENTITIES (dict str -> class name), METADATA_NAME,
                            the exception classes caught around the loading in load_external_modules
  ford/sourceform.py        `_project_list` of every External* class that ENTITIES mentions, SUBLINK_TYPES,
                            the attribute names of FortranBase.children (argument order of self.iterator(...))
  ford/fortran_project.py   LINK_TYPES (dict str -> str, in source order), the order of the two arguments of
                            chain(...) in find_used_modules, the shape of the chain(...) of Project.find
                            (FIND_LOCAL_FIRST: own collections `if not name.startswith("ext")` first, then
                            `if name.startswith("ext")`; false for the single chain over LINK_TYPES.values())
Emitted: Coq lists of strings / pairs.  Out/ExternalProofs.v proves them equal to the tables the model
Out/External.v was written against (C16_tables_fingerprint), so an edit of a table changes what is checked.
Fail closed (exit 2, generated file untouched) on anything outside these shapes.
"""
import ast
import os
import pathlib
import sys

REPO = pathlib.Path(os.environ.get("VERIF_REPO", "/repo"))
OUT = pathlib.Path(__file__).resolve().parent.parent / "coq" / "theories" / "Gen" / "C16Tables.v"


class Refuse(Exception):
    pass


def cstr(x):
    if not isinstance(x, str):
        raise Refuse(f"not a string: {x!r}")
    if not all(32 <= ord(c) < 127 for c in x):
        raise Refuse(f"string outside printable 7-bit ASCII: {x!r}")
    return '(s "' + x.replace('"', '""') + '")'


def module_assign(tree, name):
    for st in tree.body:
        if isinstance(st, ast.Assign) and len(st.targets) == 1 and isinstance(st.targets[0], ast.Name) \
                and st.targets[0].id == name:
            return st.value
        if isinstance(st, ast.AnnAssign) and isinstance(st.target, ast.Name) and st.target.id == name:
            return st.value
    raise Refuse(f"no module-level assignment of {name}")


def str_list(node, what):
    if not isinstance(node, ast.List):
        raise Refuse(f"{what} is not a list literal")
    out = []
    for e in node.elts:
        if not (isinstance(e, ast.Constant) and isinstance(e.value, str)):
            raise Refuse(f"{what}: element is not a string literal")
        out.append(e.value)
    return out


def str_dict(node, what, value_kind):
    if not isinstance(node, ast.Dict):
        raise Refuse(f"{what} is not a dict literal")
    out = []
    for k, v in zip(node.keys, node.values):
        if not (isinstance(k, ast.Constant) and isinstance(k.value, str)):
            raise Refuse(f"{what}: key is not a string literal")
        if value_kind == "str":
            if not (isinstance(v, ast.Constant) and isinstance(v.value, str)):
                raise Refuse(f"{what}: value is not a string literal")
            out.append((k.value, v.value))
        else:
            if not isinstance(v, ast.Name):
                raise Refuse(f"{what}: value is not a plain name")
            out.append((k.value, v.id))
    return out


def find_func(tree, name):
    for st in ast.walk(tree):
        if isinstance(st, ast.FunctionDef) and st.name == name:
            return st
    raise Refuse(f"function {name} not found")


def dotted(node):
    if isinstance(node, ast.Name):
        return node.id
    if isinstance(node, ast.Attribute):
        return dotted(node.value) + "." + node.attr
    raise Refuse("exception class is not a (dotted) name")


def main():
    ep = ast.parse((REPO / "ford" / "external_project.py").read_text())
    sf = ast.parse((REPO / "ford" / "sourceform.py").read_text())
    fp = ast.parse((REPO / "ford" / "fortran_project.py").read_text())

    attributes = str_list(module_assign(ep, "ATTRIBUTES"), "ATTRIBUTES")
    entities = str_dict(module_assign(ep, "ENTITIES"), "ENTITIES", "name")
    meta = module_assign(ep, "METADATA_NAME")
    if not (isinstance(meta, ast.Constant) and isinstance(meta.value, str)):
        raise Refuse("METADATA_NAME is not a string literal")

    # the except clause of the try in load_external_modules
    load = find_func(ep, "load_external_modules")
    tries = [n for n in ast.walk(load) if isinstance(n, ast.Try)]
    if len(tries) != 1 or len(tries[0].handlers) != 1:
        raise Refuse("load_external_modules: expected exactly one try with one handler")
    h = tries[0].handlers[0].type
    caught = [dotted(e) for e in h.elts] if isinstance(h, ast.Tuple) else [dotted(h)]

    # _project_list of the External* classes
    plists = {}
    for st in sf.body:
        if isinstance(st, ast.ClassDef) and st.name.startswith("External"):
            for b in st.body:
                if isinstance(b, ast.Assign) and len(b.targets) == 1 and isinstance(b.targets[0], ast.Name) \
                        and b.targets[0].id == "_project_list":
                    if not (isinstance(b.value, ast.Constant) and isinstance(b.value.value, str)):
                        raise Refuse(f"{st.name}._project_list is not a string literal")
                    plists[st.name] = b.value.value
    ent_lists = []
    for key, cls in entities:
        if cls not in plists:
            raise Refuse(f"class {cls} of ENTITIES has no _project_list")
        ent_lists.append((key, plists[cls]))

    sublinks = str_dict(module_assign(sf, "SUBLINK_TYPES"), "SUBLINK_TYPES", "str")
    link_types = str_dict(module_assign(fp, "LINK_TYPES"), "LINK_TYPES", "str")

    # FortranBase.children: self.iterator("absinterfaces", ...)
    children = None
    for st in sf.body:
        if isinstance(st, ast.ClassDef) and st.name == "FortranBase":
            f = find_func(st, "children")
            calls = [n for n in ast.walk(f) if isinstance(n, ast.Call) and isinstance(n.func, ast.Attribute)
                     and n.func.attr == "iterator"]
            if len(calls) != 1:
                raise Refuse("FortranBase.children: expected one self.iterator(...) call")
            children = []
            for a in calls[0].args:
                if not (isinstance(a, ast.Constant) and isinstance(a.value, str)):
                    raise Refuse("FortranBase.children: iterator argument is not a string literal")
                children.append(a.value)
    if children is None:
        raise Refuse("FortranBase.children not found")

    # find_used_modules: for candidate in chain(modules, external_modules)
    fum = find_func(fp, "find_used_modules")
    # the candidate modules of a USE: `chain(modules, external_modules)` (iterated directly or through a
    # variable); other chain calls of the function walk interface lists obtained with getattr and are not
    # about the search order
    chains = [n for n in ast.walk(fum) if isinstance(n, ast.Call) and isinstance(n.func, ast.Name)
              and n.func.id == "chain" and n.args and all(isinstance(a, ast.Name) for a in n.args)]
    if len(chains) != 1:
        raise Refuse("find_used_modules: expected one `chain(<names>)`")
    order = []
    for a in chains[0].args:
        if not isinstance(a, ast.Name):
            raise Refuse("find_used_modules: chain argument is not a plain name")
        order.append(a.id)

    # Project.find: chain(*(... for name in names if not name.startswith("ext")), *(... if name.startswith("ext")))
    pf = None
    for st in fp.body:
        if isinstance(st, ast.ClassDef) and st.name == "Project":
            pf = find_func(st, "find")
    if pf is None:
        raise Refuse("Project.find not found")
    pchains = [n for n in ast.walk(pf) if isinstance(n, ast.Call) and isinstance(n.func, ast.Name)
               and n.func.id == "chain"]
    if len(pchains) != 1:
        raise Refuse("Project.find: expected one chain(...) call")

    def ext_test(gen):
        """None: no filter; True: `name.startswith("ext")`; False: `not name.startswith("ext")`"""
        if not (isinstance(gen, ast.Starred) and isinstance(gen.value, ast.GeneratorExp)
                and len(gen.value.generators) == 1):
            raise Refuse("Project.find: chain argument is not a starred generator expression")
        ifs = gen.value.generators[0].ifs
        if not ifs:
            return None
        if len(ifs) != 1:
            raise Refuse("Project.find: more than one filter")
        c, neg = ifs[0], False
        if isinstance(c, ast.UnaryOp) and isinstance(c.op, ast.Not):
            c, neg = c.operand, True
        if not (isinstance(c, ast.Call) and isinstance(c.func, ast.Attribute) and c.func.attr == "startswith"
                and len(c.args) == 1 and isinstance(c.args[0], ast.Constant) and c.args[0].value == "ext"):
            raise Refuse("Project.find: unexpected filter")
        return not neg
    tests = [ext_test(a) for a in pchains[0].args]
    if tests == [None]:
        find_local_first = False
    elif tests == [False, True]:
        find_local_first = True
    else:
        raise Refuse(f"Project.find: unexpected chain shape {tests}")

    def lst(xs):
        return "[" + "; ".join(xs) + "]"

    def pairs(ps):
        return lst(f"({cstr(a)}, {cstr(b)})" for a, b in ps)
    text = (
        "(* GENERATED by translate/t_c16_tables.py from ford/external_project.py, ford/sourceform.py,\n"
        "   ford/fortran_project.py -- do not edit. *)\n"
        "From Ford Require Import Base.Str.\n\n"
        f"Definition ATTRIBUTES_src : list str := {lst(cstr(a) for a in attributes)}.\n"
        f"Definition ENTITIES_src : list (str * str) := {pairs(entities)}.\n"
        f"Definition ENTITY_LISTS_src : list (str * str) := {pairs(ent_lists)}.\n"
        f"Definition METADATA_NAME_src : str := {cstr(meta.value)}.\n"
        f"Definition CAUGHT_src : list str := {lst(cstr(c) for c in caught)}.\n"
        f"Definition SUBLINK_TYPES_src : list (str * str) := {pairs(sublinks)}.\n"
        f"Definition LINK_TYPES_src : list (str * str) := {pairs(link_types)}.\n"
        f"Definition CHILDREN_src : list str := {lst(cstr(c) for c in children)}.\n"
        f"Definition USE_CHAIN_src : list str := {lst(cstr(c) for c in order)}.\n"
        f"Definition FIND_LOCAL_FIRST_src : bool := {'true' if find_local_first else 'false'}.\n")
    OUT.parent.mkdir(parents=True, exist_ok=True)
    if not OUT.exists() or OUT.read_text() != text:
        OUT.write_text(text)


if __name__ == "__main__":
    try:
        main()
    except Refuse as e:
        print("t_c16_tables: REFUSED:", e)
        sys.exit(2)
    except Exception as e:  # noqa
        print("t_c16_tables: FAILED:", type(e).__name__, e)
        sys.exit(2)
