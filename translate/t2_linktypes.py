#!/usr/bin/env python
"""T2 — regenerate coq/theories/Gen/LinkTypes.v from the working tree (VERIF_REPO, default /repo).

Extracted with Python's ast, fail closed (anything outside the subset => exit 1, nothing written):
  * ford/fortran_project.py: the module-level dict literal LINK_TYPES (string keys and values, source order)
    and the shape of Project.find that gives it meaning (LINK_TYPES[entity.lower()] / chain over
    the de-duplicated LINK_TYPES.values(), the collections whose name does not start with "ext" first)
  * ford/sourceform.py: the module-level dict literal SUBLINK_TYPES, and FortranBase.children:
    the attribute names handed to self.iterator(...) in order and the list non_list_children;
    the module-level dict literal SCOPE_LINK_TYPES (kind word -> tuple of attribute names) and the shape of
    FortranBase.find_in_scope / find_child that give it meaning
  * ford/_markdown.py: convert_link searches the context with find_in_scope; an item that is found but
    not displayed (page owner not visible / FortranBase.page_is_written() false) is plain text; handleMatch
    turns ValueError / RuntimeError into a warning and plain text (the model's [settle])
"""
import ast
import os
import pathlib
import sys

REPO = pathlib.Path(os.environ.get("VERIF_REPO", "/repo"))
OUT = pathlib.Path(__file__).resolve().parent.parent / "coq" / "theories" / "Gen" / "LinkTypes.v"


class Refuse(Exception):
    pass


def refuse(msg):
    raise Refuse(msg)


def str_dict(tree, name, where):
    found = [n for n in tree.body if isinstance(n, ast.Assign) and len(n.targets) == 1
             and isinstance(n.targets[0], ast.Name) and n.targets[0].id == name]
    if len(found) != 1:
        refuse(f"{where}: expected exactly one module-level assignment to {name}, found {len(found)}")
    d = found[0].value
    if not isinstance(d, ast.Dict):
        refuse(f"{where}: {name} is not a dict literal")
    out = []
    for k, v in zip(d.keys, d.values):
        if not (isinstance(k, ast.Constant) and isinstance(k.value, str) and isinstance(v, ast.Constant)
                and isinstance(v.value, str)):
            refuse(f"{where}: {name} has a non-literal entry")
        if not (k.value.isascii() and v.value.isascii() and k.value == k.value.lower()):
            refuse(f"{where}: {name} key {k.value!r} is not lower-case ASCII")
        out.append((k.value, v.value))
    if len({k for k, _ in out}) != len(out):
        refuse(f"{where}: duplicate key in {name}")
    # any later mutation of the table would make the literal meaningless
    for n in ast.walk(tree):
        if isinstance(n, (ast.Subscript, ast.Attribute)) and isinstance(getattr(n, "ctx", None), (ast.Store, ast.Del)):
            v = n.value
            if isinstance(v, ast.Name) and v.id == name:
                refuse(f"{where}: {name} is modified after its definition")
        if isinstance(n, ast.Call) and isinstance(n.func, ast.Attribute) and isinstance(n.func.value, ast.Name) \
                and n.func.value.id == name and n.func.attr in ("update", "pop", "setdefault", "clear", "popitem"):
            refuse(f"{where}: {name}.{n.func.attr}() is called")
    return out


def str_tuple_dict(tree, name, where):
    found = [n for n in tree.body if isinstance(n, ast.Assign) and len(n.targets) == 1
             and isinstance(n.targets[0], ast.Name) and n.targets[0].id == name]
    if len(found) != 1:
        refuse(f"{where}: expected exactly one module-level assignment to {name}, found {len(found)}")
    d = found[0].value
    if not isinstance(d, ast.Dict):
        refuse(f"{where}: {name} is not a dict literal")
    out = []
    for k, v in zip(d.keys, d.values):
        if not (isinstance(k, ast.Constant) and isinstance(k.value, str) and k.value == k.value.lower()
                and k.value.isascii()):
            refuse(f"{where}: {name} has a key that is not a lower-case ASCII literal")
        out.append((k.value, str_list(v, f"{name}[{k.value!r}]")))
    if len({k for k, _ in out}) != len(out):
        refuse(f"{where}: duplicate key in {name}")
    for n in ast.walk(tree):
        if isinstance(n, ast.Subscript) and isinstance(n.ctx, (ast.Store, ast.Del)) and isinstance(n.value, ast.Name) \
                and n.value.id == name:
            refuse(f"{where}: {name} is modified after its definition")
    return out


def check_scope_lookup(sf, mdtree):
    cls = [n for n in sf.body if isinstance(n, ast.ClassDef) and n.name == "FortranBase"][0]
    fns = {n.name: ast.unparse(n) for n in cls.body if isinstance(n, ast.FunctionDef)}
    if "find_in_scope" not in fns:
        refuse("sourceform.py: FortranBase.find_in_scope not found")
    for needle in ["if entity is None:\n        return self.find_child(name)",
                   "collections = SCOPE_LINK_TYPES[entity.lower()]",
                   "except KeyError:\n        return self.find_child(name, entity)",
                   "return _find_in_list(self.iterator(*collections), name)"]:
        if needle not in fns["find_in_scope"]:
            refuse(f"FortranBase.find_in_scope no longer contains `{needle}`")
    for needle in ["collection_name = SUBLINK_TYPES[entity.lower()]", "if not hasattr(self, collection_name):",
                   "collection = getattr(self, collection_name)",
                   "if collection is None:\n            collection = []",
                   "elif isinstance(collection, FortranBase):\n            collection = [collection]",
                   "collection = self.children", "return _find_in_list(collection, name)"]:
        if needle not in fns["find_child"]:
            refuse(f"FortranBase.find_child no longer contains `{needle}`")
    pcls = [n for n in mdtree.body if isinstance(n, ast.ClassDef) and n.name == "FordLinkProcessor"]
    if len(pcls) != 1:
        refuse("_markdown.py: FordLinkProcessor not found")
    pf = {n.name: ast.unparse(n) for n in pcls[0].body if isinstance(n, ast.FunctionDef)}
    if "return context.find_in_scope(name, m['entity'])" not in pf.get("convert_link", ""):
        refuse("convert_link no longer searches the context with find_in_scope")
    # what happens to the item that was found: not displayed -> plain text; no URL -> RuntimeError; else link
    tail = ("settings = getattr(self.project, 'settings', None)\n"
            "    if getattr(item, 'obj', None) == 'sourcefile' and (not getattr(settings, 'incl_src', True)):\n"
            "        link.text = item.name\n        return link\n"
            "    page_owner = item.parent if getattr(item, 'is_interface_procedure', False) else item\n"
            "    if getattr(item, 'get_dir', lambda: None)() is not None and (not getattr(page_owner, 'visible', True)) "
            "or not getattr(item, 'page_is_written', lambda: True)():\n"
            "        warn(f\"{self.warn_prefix}Not linking {m.group()}: '{item.name}' is not displayed\")\n"
            "        link.text = item.name\n        return link\n"
            "    if (item_url := item.get_url()) is None:\n"
            "        raise RuntimeError(f'Found item {name} but no url')\n"
            "    if item_url.startswith('http'):\n        rel_url = item_url\n    else:\n"
            "        full_url = self.md.base_url / item_url\n"
            "        rel_url = relpath(full_url, self.md.current_path)\n"
            "    link.attrib['href'] = str(rel_url)\n    link.text = item.name\n    return link")
    if not pf.get("convert_link", "").endswith(tail):
        refuse("the end of convert_link (displayed / URL / href) changed")
    piw = [n for n in cls.body if isinstance(n, ast.FunctionDef) and n.name == "page_is_written"]
    if len(piw) != 1:
        refuse("FortranBase.page_is_written not found")
    body = [n for n in piw[0].body if not (isinstance(n, ast.Expr) and isinstance(n.value, ast.Constant))]
    want = ("if self.get_dir() is not None:\n    return True\n"
            "parent = getattr(self, 'parent', None)\n"
            "if parent is None or isinstance(parent, str):\n    return True\n"
            "if getattr(parent, 'is_interface_procedure', False):\n    parent = parent.parent\n"
            "if not getattr(parent, 'visible', True):\n    return False\n"
            "return getattr(parent, 'page_is_written', lambda: True)()")
    if "\n".join(ast.unparse(n) for n in body) != want:
        refuse("FortranBase.page_is_written changed")
    # MetaMarkdown.convert: the context of a conversion is its own argument (set on every call), reset() clears it
    mcls = [n for n in mdtree.body if isinstance(n, ast.ClassDef) and n.name == "MetaMarkdown"]
    mf = {n.name: n for n in mcls[0].body if isinstance(n, ast.FunctionDef)} if len(mcls) == 1 else {}
    if "convert" not in mf or "reset" not in mf:
        refuse("_markdown.py: MetaMarkdown.convert / reset not found")
    cbody = [n for n in mf["convert"].body if not (isinstance(n, ast.Expr) and isinstance(n.value, ast.Constant))]
    if not cbody or ast.unparse(cbody[0]) != "self.current_context = context":
        refuse("MetaMarkdown.convert no longer starts with `self.current_context = context`")
    if sum(1 for n in ast.walk(mf["convert"]) if isinstance(n, ast.Attribute) and n.attr == "current_context"
           and isinstance(n.ctx, ast.Store)) != 1:
        refuse("MetaMarkdown.convert assigns current_context more than once")
    if "self.current_context = None" not in ast.unparse(mf["reset"]):
        refuse("MetaMarkdown.reset no longer clears current_context")
    for needle in ["link = self.convert_link(m)", "except (ValueError, RuntimeError) as e:", "link.text = m['name']"]:
        if needle not in pf.get("handleMatch", ""):
            refuse(f"FordLinkProcessor.handleMatch no longer contains `{needle}`")


def str_list(node, where):
    if not isinstance(node, (ast.List, ast.Tuple)):
        refuse(f"{where}: not a list literal")
    out = []
    for e in node.elts:
        if not (isinstance(e, ast.Constant) and isinstance(e.value, str) and e.value.isidentifier()):
            refuse(f"{where}: non-literal element")
        out.append(e.value)
    return out


def children_lists(tree):
    cls = [n for n in tree.body if isinstance(n, ast.ClassDef) and n.name == "FortranBase"]
    if len(cls) != 1:
        refuse("sourceform.py: class FortranBase not found exactly once")
    fns = [n for n in cls[0].body if isinstance(n, ast.FunctionDef) and n.name == "children"]
    if len(fns) != 1:
        refuse("sourceform.py: FortranBase.children not found exactly once")
    body = [n for n in fns[0].body if not (isinstance(n, ast.Expr) and isinstance(n.value, ast.Constant))]
    if len(body) != 2 or not isinstance(body[0], ast.Assign) or not isinstance(body[1], ast.Return):
        refuse("FortranBase.children: expected `non_list_children = [...]` followed by `return chain(...)`")
    tgt = body[0].targets
    if not (len(tgt) == 1 and isinstance(tgt[0], ast.Name) and tgt[0].id == "non_list_children"):
        refuse("FortranBase.children: first statement is not the non_list_children assignment")
    non_list = str_list(body[0].value, "non_list_children")
    call = body[1].value
    if not (isinstance(call, ast.Call) and isinstance(call.func, ast.Name) and call.func.id == "chain"
            and len(call.args) == 2 and not call.keywords):
        refuse("FortranBase.children: return value is not chain(<iterator>, <filter>)")
    it, flt = call.args
    if not (isinstance(it, ast.Call) and ast.unparse(it.func) == "self.iterator" and not it.keywords):
        refuse("FortranBase.children: first part is not self.iterator(...)")
    attrs = str_list(ast.List(elts=it.args), "self.iterator arguments")
    want = "filter(None, (getattr(self, item, None) for item in non_list_children))"
    if ast.unparse(flt) != want:
        refuse(f"FortranBase.children: second part is {ast.unparse(flt)!r}, expected {want!r}")
    its = [n for n in cls[0].body if isinstance(n, ast.FunctionDef) and n.name == "iterator"]
    if len(its) != 1:
        refuse("FortranBase.iterator not found")
    src = ast.unparse(its[0].body[-1])
    if src != "for arg in argv:\n    if hasattr(self, arg):\n        for item in getattr(self, arg):\n            yield item":
        refuse("FortranBase.iterator changed: " + src)
    return attrs, non_list


def check_find(tree):
    """Project.find must still read the table the way the model does"""
    cls = [n for n in tree.body if isinstance(n, ast.ClassDef) and n.name == "Project"]
    fns = [n for n in cls[0].body if isinstance(n, ast.FunctionDef) and n.name == "find"] if cls else []
    if len(fns) != 1:
        refuse("fortran_project.py: Project.find not found exactly once")
    src = ast.unparse(fns[0])
    for needle in ["getattr(self, LINK_TYPES[entity.lower()])",
                   "names = list(dict.fromkeys(LINK_TYPES.values()))",
                   "collection = chain(*(getattr(self, name) for name in names if not name.startswith('ext')), "
                   "*(getattr(self, name) for name in names if name.startswith('ext')))",
                   "_find_in_list(collection, name)", "item.find_child(child_name, child_entity)"]:
        if needle not in src:
            refuse(f"Project.find no longer contains `{needle}`")


def coq_str(x):
    return '(s "' + x.replace('"', '""') + '")'


def main():
    try:
        fp = ast.parse((REPO / "ford" / "fortran_project.py").read_text())
        sf = ast.parse((REPO / "ford" / "sourceform.py").read_text())
        link = str_dict(fp, "LINK_TYPES", "fortran_project.py")
        sub = str_dict(sf, "SUBLINK_TYPES", "sourceform.py")
        attrs, non_list = children_lists(sf)
        check_find(fp)
        scope = str_tuple_dict(sf, "SCOPE_LINK_TYPES", "sourceform.py")
        check_scope_lookup(sf, ast.parse((REPO / "ford" / "_markdown.py").read_text()))
    except (Refuse, SyntaxError, OSError) as e:
        print("T2 refuses:", e)
        sys.exit(1)

    def pairs(l):
        return "[" + ";\n   ".join(f"({coq_str(k)}, {coq_str(v)})" for k, v in l) + "]"

    def strs(l):
        return "[" + "; ".join(coq_str(x) for x in l) + "]"
    text = ("(* GENERATED by translate/t2_linktypes.py from ford/fortran_project.py and ford/sourceform.py — "
            "do not edit *)\nFrom Ford Require Import Base.Str.\n\n"
            f"(* LINK_TYPES: kind name -> project collection, in source order *)\n"
            f"Definition link_types : list (str * str) :=\n  {pairs(link)}.\n\n"
            f"(* SUBLINK_TYPES: kind name -> attribute of the parent entity, in source order *)\n"
            f"Definition sublink_types : list (str * str) :=\n  {pairs(sub)}.\n\n"
            f"(* FortranBase.children: the list attributes chained, in order; then the single-item ones *)\n"
            f"Definition children_attrs : list str :=\n  {strs(attrs)}.\n"
            f"Definition non_list_children : list str :=\n  {strs(non_list)}.\n\n"
            f"(* SCOPE_LINK_TYPES: component kind word -> attributes of an enclosing entity searched by find_in_scope *)\n"
            f"Definition scope_link_types : list (str * list str) :=\n  ["
            + ";\n   ".join(f"({coq_str(k)}, {strs(v)})" for k, v in scope) + "].\n")
    if not OUT.exists() or OUT.read_text() != text:
        OUT.parent.mkdir(parents=True, exist_ok=True)
        OUT.write_text(text)
    print("T2 ok:", len(link), "link types,", len(sub), "sublink types,", len(attrs), "child attributes,",
          len(scope), "scope kinds")


if __name__ == "__main__":
    main()
