#!/usr/bin/env python
"""T3 -- regenerate coq/theories/Gen/Schema.v from the working tree's ford/settings.py and
ford/__init__.py (VERIF_REPO, default /repo).

Emitted: every field of ProjectSettings and EntitySettings (name, declared type class, default as a
Python value, init flag), OPTION_SEPARATORS, INTRINSIC_MODS, FAVICON_PATH, LICENSES and the
destinations of the command line parser (dest, kind).  Fail closed: anything outside the subset the
Coq model understands (an unknown declared type, a default that is not a plain value, a non-ASCII
string, ...) aborts with exit code 2 and leaves the generated file untouched.
"""
import dataclasses
import os
import pathlib
import sys
import typing

REPO = pathlib.Path(os.environ.get("VERIF_REPO", "/repo"))
OUT = pathlib.Path(__file__).resolve().parent.parent / "coq" / "theories" / "Gen" / "Schema.v"


class Refuse(Exception):
    pass


def cstr(x):
    if not isinstance(x, str):
        raise Refuse(f"not a string: {x!r}")
    if not all(ord(c) < 127 and (ord(c) >= 32) for c in x):
        raise Refuse(f"string outside printable 7-bit ASCII: {x!r}")
    return '(s "' + x.replace('"', '""') + '")'


def clist(items):
    return "[" + "; ".join(items) + "]"


def type_class(tp):
    from typing import Dict, List, Optional
    from pathlib import Path
    from ford.settings import ExtraFileType
    table = [
        (bool, "TBool"), (int, "TInt"), (str, "TStr"), (Path, "TPath"), (list, "TListAny"),
        (Optional[str], "TOptStr"), (Optional[Path], "TOptPath"), (Optional[int], "TOptInt"),
        (List[str], "TListStr"), (List[Path], "TListPath"),
        (Dict[str, str], "TDictStr"), (Dict[str, ExtraFileType], "TDictFT"),
    ]
    for t, name in table:
        if tp == t:
            return name
    raise Refuse(f"declared type outside the modelled classes: {tp!r}")


def pyval(v, tclass, fname):
    """Coq term of type pv for a default value; the value must be a plain value of the field's class."""
    from pathlib import PurePath
    if v is None:
        if not tclass.startswith("TOpt"):
            raise Refuse(f"{fname}: default None for non-optional class {tclass}")
        return "PNone"
    if isinstance(v, bool):
        return "(PBool true)" if v else "(PBool false)"
    if isinstance(v, int):
        return f"(PInt ({v})%Z)"
    if isinstance(v, str):
        return f"(PStr {cstr(v)})"
    if isinstance(v, PurePath):
        return f"(PPath {cstr(str(v))})"
    if isinstance(v, list):
        return "(PList " + clist(pyval(x, "elem", fname) for x in v) + ")"
    if isinstance(v, dict):
        items = []
        for k, x in v.items():
            items.append(f"({cstr(k)}, {pyval(x, 'elem', fname)})")
        return "(PDict " + clist(items) + ")"
    raise Refuse(f"{fname}: default value outside the modelled universe: {v!r}")


def default_shape_ok(v, tclass):
    from pathlib import PurePath
    ok = {
        "TBool": lambda: isinstance(v, bool),
        "TInt": lambda: isinstance(v, int) and not isinstance(v, bool),
        "TStr": lambda: isinstance(v, str),
        "TPath": lambda: isinstance(v, PurePath),
        "TListAny": lambda: isinstance(v, list),
        "TOptStr": lambda: v is None or isinstance(v, str),
        "TOptPath": lambda: v is None or isinstance(v, PurePath),
        "TOptInt": lambda: v is None or (isinstance(v, int) and not isinstance(v, bool)),
        "TListStr": lambda: isinstance(v, list) and all(isinstance(x, str) for x in v),
        "TListPath": lambda: isinstance(v, list) and all(isinstance(x, PurePath) for x in v),
        "TDictStr": lambda: isinstance(v, dict) and all(isinstance(x, str) for x in v.values()),
        "TDictFT": lambda: isinstance(v, dict) and not v,
    }[tclass]()
    return ok


def fields_of(cls, dynamic):
    hints = typing.get_type_hints(cls)
    out = []
    for f in dataclasses.fields(cls):
        tclass = type_class(hints[f.name])
        if f.default is not dataclasses.MISSING:
            d = f.default
        elif f.default_factory is not dataclasses.MISSING:
            d = f.default_factory()
            d2 = f.default_factory()
            if d != d2:
                raise Refuse(f"{f.name}: default factory is not deterministic")
        elif not f.init:
            d = None                  # computed in __post_init__ (ProjectSettings.relative)
        else:
            raise Refuse(f"{f.name}: field without default")
        if not f.init:
            term = "PNone"
        elif f.name in dynamic:
            term = dynamic[f.name](d)
        else:
            if not default_shape_ok(d, tclass):
                raise Refuse(f"{f.name}: default {d!r} does not have the declared class {tclass}")
            term = pyval(d, tclass, f.name)
        out.append(f"  mkfield {cstr(f.name)} {tclass} {term} {'true' if f.init else 'false'}")
    return out


def cli_dests():
    """(dest, kind) of every action of ford.get_command_line_arguments' parser, in declaration order.
    The parser is built inside the function, so it is captured by intercepting parse_args."""
    import argparse
    import ford
    captured = {}
    orig = argparse.ArgumentParser.parse_args

    def grab(self, *a, **k):
        captured["p"] = self
        raise Refuse("captured")
    argparse.ArgumentParser.parse_args = grab
    try:
        try:
            ford.get_command_line_arguments()
        except Refuse:
            pass
    finally:
        argparse.ArgumentParser.parse_args = orig
    if "p" not in captured:
        raise Refuse("could not capture the argument parser")
    kinds = {"_StoreAction": "CStore", "_AppendAction": "CAppend", "_StoreTrueAction": "CTrue",
             "_StoreFalseAction": "CFalse"}
    out = []
    for a in captured["p"]._actions:
        k = type(a).__name__
        if k in ("_HelpAction", "_VersionAction"):
            continue
        if k not in kinds:
            raise Refuse(f"command line action outside the modelled kinds: {k} ({a.dest})")
        if a.default is not None:
            raise Refuse(f"command line option {a.dest} has a default that is not None: {a.default!r}")
        if not a.option_strings:
            flag = ""
        else:
            flag = [o for o in a.option_strings if o.startswith("--")][0]
        out.append(f"  ({cstr(a.dest)}, {kinds[k]}, {cstr(flag)})")
    return out


def generate():
    sys.path.insert(0, str(REPO))
    import ford
    import ford.settings as S
    if pathlib.Path(S.__file__).resolve().parent != (REPO / "ford").resolve():
        raise Refuse(f"imported ford from {S.__file__}, expected {REPO}/ford")
    # defaults evaluated at import time from the environment: kept symbolic where the value is never
    # observable after normalise_paths (directory), emitted as the imported value otherwise
    dynamic = {"directory": lambda d: '(PPath (s "<cwd-at-import>"))'}
    proj = fields_of(S.ProjectSettings, dynamic)
    ent = fields_of(S.EntitySettings, {})
    seps = S.OPTION_SEPARATORS
    if not isinstance(seps, dict) or not all(isinstance(k, str) and isinstance(v, str) and len(v) == 1
                                              for k, v in seps.items()):
        raise Refuse("OPTION_SEPARATORS is not a dict from names to one-character separators")
    mods = S.INTRINSIC_MODS
    if not isinstance(mods, dict):
        raise Refuse("INTRINSIC_MODS is not a dict")
    lic = ford.LICENSES
    if not isinstance(lic, dict):
        raise Refuse("LICENSES is not a dict")
    pnames = [f.name for f in dataclasses.fields(S.ProjectSettings)]
    if len(set(pnames)) != len(pnames):
        raise Refuse("duplicate field names")
    lines = [
        "(* GENERATED by translate/t3_schema.py from ford/settings.py and ford/__init__.py -- do not edit. *)",
        "From Coq Require Import ZArith.",
        "From Ford Require Import Base.Str Out.SettingsTypes.",
        "",
        "Definition project_schema : list field := Eval vm_compute in [",
        ";\n".join(proj),
        "].",
        "",
        "Definition entity_schema : list field := Eval vm_compute in [",
        ";\n".join(ent),
        "].",
        "",
        "Definition option_separators : list (str * str) := Eval vm_compute in "
        + clist(f"({cstr(k)}, {cstr(v)})" for k, v in seps.items()) + ".",
        "",
        "Definition intrinsic_mods : list (str * str) := Eval vm_compute in [",
        ";\n".join(f"  ({cstr(k)}, {cstr(v)})" for k, v in mods.items()),
        "].",
        "",
        f"Definition favicon_path : str := Eval vm_compute in {cstr(str(S.FAVICON_PATH))}.",
        "",
        "Definition licenses : list (str * str) := Eval vm_compute in [",
        ";\n".join(f"  ({cstr(k)}, {cstr(v)})" for k, v in lic.items()),
        "].",
        "",
        "Definition cli_dests : list (str * clikind * str) := Eval vm_compute in [",
        ";\n".join(cli_dests()),
        "].",
        "",
    ]
    return "\n".join(lines)


def main():
    try:
        text = generate()
    except Refuse as e:
        print(f"t3_schema: REFUSED: {e}", file=sys.stderr)
        return 2
    except Exception as e:  # noqa -- fail closed on anything unexpected
        print(f"t3_schema: FAILED: {type(e).__name__}: {e}", file=sys.stderr)
        return 2
    OUT.parent.mkdir(parents=True, exist_ok=True)
    if not OUT.exists() or OUT.read_text() != text:
        OUT.write_text(text)
        print(f"t3_schema: wrote {OUT}")
    return 0


if __name__ == "__main__":
    sys.exit(main())
