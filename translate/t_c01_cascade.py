#!/usr/bin/env python
"""Regenerate coq/theories/Gen/Cascade.v from the working tree's ford/sourceform.py (VERIF_REPO,
default /repo): the statement-classification cascade of FortranContainer.__init__.

Emitted
  * prologue   : the statements of the `for line in source` loop that precede the if/elif chain
                 (documentation-line test, string masking, lower-casing), as source text;
  * cascade    : the branches of the chain in source order; for each the condition in a small
                 condition language (comparison of line_lower with literals, <RE>.match/search(line),
                 blocklevel == 0, incontains, match["group"], isinstance(self, C), and/or) and a
                 summary of the body (hasattr(self, ..) tests, isinstance tests, entity constructors
                 called, effects on the loop state: blocklevel, incontains, line, return, continue);
  * patterns   : text and flags of every regular expression the conditions use
                 (VARIABLE_RE = VARIABLE_STRING with no extra variable types).

Fail closed: a loop that is not of this shape, a condition outside the language, a regular expression
the Coq model has no recogniser for, a non-ASCII pattern ... abort with exit code 2 and leave the
generated file untouched.  Optional argument: output file (default Gen/Cascade.v of this tree).
"""
import ast
import os
import pathlib
import re
import sys

REPO = pathlib.Path(os.environ.get("VERIF_REPO", "/repo"))
OUT = pathlib.Path(__file__).resolve().parent.parent / "coq" / "theories" / "Gen" / "Cascade.v"

# regular expressions the model has a recogniser for (constructors of Sem.CascadeTypes.re_id)
KNOWN_RE = ["FORMAT_RE", "ATTRIB_RE", "END_RE", "MODPROC_RE", "BLOCK_DATA_RE", "BLOCK_RE", "ASSOCIATE_RE",
            "MODULE_RE", "SUBMODULE_RE", "PROGRAM_RE", "SUBROUTINE_RE", "NAMELIST_RE", "FUNCTION_RE", "TYPE_RE",
            "INTERFACE_RE", "ENUM_RE", "BOUNDPROC_RE", "COMMON_RE", "FINAL_RE", "VARIABLE_RE", "USE_RE",
            "ARITH_GOTO_RE", "CALL_RE", "SUBCALL_RE"]
STATE_VARS = {"blocklevel", "incontains", "line"}
CONSTRUCTOR_LIKE = re.compile(r"^(Fortran[A-Za-z]+|get_mod_procs|line_to_variables)$")


class Refuse(Exception):
    pass


def cstr(x):
    if not isinstance(x, str):
        raise Refuse(f"not a string: {x!r}")
    if not all((32 <= ord(c) < 127) or c == "\n" for c in x):
        raise Refuse(f"string outside printable 7-bit ASCII: {x!r}")
    return '(s "' + x.replace('"', '""') + '")'


def clist(items):
    return "[" + "; ".join(items) + "]"


def is_self_re(node, method):
    """self.<NAME>.<method>(line) -> NAME"""
    if (isinstance(node, ast.Call) and isinstance(node.func, ast.Attribute) and node.func.attr == method
            and isinstance(node.func.value, ast.Attribute) and isinstance(node.func.value.value, ast.Name)
            and node.func.value.value.id == "self" and len(node.args) == 1 and not node.keywords
            and isinstance(node.args[0], ast.Name) and node.args[0].id == "line"):
        return node.func.value.attr
    return None


class Chain:
    def __init__(self):
        self.bound = {}     # walrus target -> regular expression it was bound to
        self.used = []

    def re_id(self, name):
        if name not in KNOWN_RE:
            raise Refuse(f"regular expression without a recogniser in the model: {name}")
        if name not in self.used:
            self.used.append(name)
        return name

    def cond(self, node):
        if isinstance(node, ast.NamedExpr):
            if not isinstance(node.target, ast.Name):
                raise Refuse("walrus target")
            inner = node.value
            for method, ctor in (("match", "CMatch"), ("search", "CSearch")):
                name = is_self_re(inner, method)
                if name:
                    self.bound[node.target.id] = name
                    return f"{ctor} {self.re_id(name)}"
            raise Refuse(f"assignment expression outside the language: {ast.unparse(node)}")
        for method, ctor in (("match", "CMatch"), ("search", "CSearch")):
            name = is_self_re(node, method)
            if name:
                return f"{ctor} {self.re_id(name)}"
        if isinstance(node, ast.BoolOp):
            ctor = "CAnd" if isinstance(node.op, ast.And) else "COr"
            parts = [self.cond(v) for v in node.values]
            out = parts[-1]
            for p in reversed(parts[:-1]):
                out = f"{ctor} ({p}) ({out})"
            return out
        if isinstance(node, ast.Compare) and len(node.ops) == 1 and isinstance(node.left, ast.Name):
            left, op, right = node.left.id, node.ops[0], node.comparators[0]
            if left == "line_lower" and isinstance(op, ast.Eq) and isinstance(right, ast.Constant) \
                    and isinstance(right.value, str):
                return f"CEqLower {cstr(right.value)}"
            if left == "line_lower" and isinstance(op, ast.In) and isinstance(right, (ast.List, ast.Tuple)) \
                    and all(isinstance(e, ast.Constant) and isinstance(e.value, str) for e in right.elts):
                return f"CInLower {clist(cstr(e.value) for e in right.elts)}"
            if left == "blocklevel" and isinstance(op, ast.Eq) and isinstance(right, ast.Constant) \
                    and right.value == 0 and not isinstance(right.value, bool):
                return "CLevel0"
        if isinstance(node, ast.Name) and node.id == "incontains":
            return "CInContains"
        if isinstance(node, ast.Subscript) and isinstance(node.value, ast.Name) and node.value.id in self.bound \
                and isinstance(node.slice, ast.Constant) and isinstance(node.slice.value, str):
            return f"CGroup {self.re_id(self.bound[node.value.id])} {cstr(node.slice.value)}"
        if (isinstance(node, ast.Call) and isinstance(node.func, ast.Name) and node.func.id == "isinstance"
                and len(node.args) == 2 and isinstance(node.args[0], ast.Name) and node.args[0].id == "self"
                and isinstance(node.args[1], ast.Name)):
            return f"CIsInstance {cstr(node.args[1].id)}"
        raise Refuse(f"condition outside the language: {ast.unparse(node)}")


def summarise(body):
    hasattrs, isinst, calls, effects = [], [], [], []

    def add(lst, x):
        if x not in lst:
            lst.append(x)
    for stmt in body:
        for node in ast.walk(stmt):
            if isinstance(node, ast.Call) and isinstance(node.func, ast.Name):
                f = node.func.id
                if f == "hasattr" and len(node.args) == 2 and isinstance(node.args[0], ast.Name) \
                        and node.args[0].id == "self" and isinstance(node.args[1], ast.Constant):
                    add(hasattrs, node.args[1].value)
                elif f == "isinstance" and len(node.args) == 2 and isinstance(node.args[0], ast.Name) \
                        and node.args[0].id == "self":
                    add(isinst, ast.unparse(node.args[1]))
                elif CONSTRUCTOR_LIKE.match(f):
                    add(calls, f)
                elif f in ("getattr", "setattr", "delattr", "eval", "exec"):
                    raise Refuse(f"dynamic attribute access in a branch body: {ast.unparse(node)}")
            elif isinstance(node, (ast.Assign, ast.AugAssign, ast.AnnAssign, ast.NamedExpr)):
                targets = node.targets if isinstance(node, ast.Assign) else [node.target]
                for t in targets:
                    for n in ast.walk(t):
                        if isinstance(n, ast.Name) and n.id in STATE_VARS and isinstance(n.ctx, ast.Store):
                            add(effects, ast.unparse(node).split("\n")[0] if n.id != "line" else "line = ...")
            elif isinstance(node, ast.Return):
                add(effects, "return")
            elif isinstance(node, ast.Continue):
                add(effects, "continue")
            elif isinstance(node, (ast.Break, ast.Raise)):
                add(effects, type(node).__name__.lower())
            elif isinstance(node, (ast.Global, ast.Nonlocal, ast.Delete)):
                raise Refuse(f"statement outside the summarised subset: {ast.unparse(node)}")
    return hasattrs, isinst, calls, effects


def key_of(node):
    """what a branch is named after: the literal or regular expression its condition starts with"""
    if isinstance(node, ast.BoolOp):
        return key_of(node.values[0])
    if isinstance(node, ast.NamedExpr):
        return key_of(node.value)
    for method in ("match", "search"):
        name = is_self_re(node, method)
        if name:
            return name
    if isinstance(node, ast.Compare) and isinstance(node.comparators[0], ast.Constant):
        return node.comparators[0].value
    if isinstance(node, ast.Compare) and isinstance(node.comparators[0], (ast.List, ast.Tuple)):
        return node.comparators[0].elts[0].value
    return "?"


def analyse(repo=None):
    """-> dict(prologue, after, branches=[dict(cond, key, summary, test, first, last)], patterns,
    loop_first=line number of the first statement of the loop body, src=path)"""
    src_path = pathlib.Path(repo or REPO) / "ford" / "sourceform.py"
    tree = ast.parse(src_path.read_text())
    classes = [n for n in tree.body if isinstance(n, ast.ClassDef) and n.name == "FortranContainer"]
    if len(classes) != 1:
        raise Refuse("class FortranContainer not found exactly once")
    inits = [n for n in classes[0].body if isinstance(n, ast.FunctionDef) and n.name == "__init__"]
    if len(inits) != 1:
        raise Refuse("FortranContainer.__init__ not found exactly once")
    loops = [n for n in ast.walk(inits[0]) if isinstance(n, ast.For)
             and isinstance(n.target, ast.Name) and n.target.id == "line"
             and isinstance(n.iter, ast.Name) and n.iter.id == "source"]
    if len(loops) != 1 or loops[0] not in inits[0].body:
        raise Refuse("the statement loop `for line in source` was not found exactly once at the top level of __init__")
    loop = loops[0]
    if loop.orelse:
        raise Refuse("the statement loop has an else part")
    chains = [i for i, st in enumerate(loop.body) if isinstance(st, ast.If) and st.orelse]
    if len(chains) != 1 or chains[0] != len(loop.body) - 1:
        raise Refuse("expected exactly one if/elif chain, as the last statement of the loop")
    prologue = [ast.unparse(st) for st in loop.body[:-1]]
    # what follows the loop (the nesting error) is part of the structural model; record it too
    after = [ast.unparse(st) for st in inits[0].body[inits[0].body.index(loop) + 1:]]

    ch = Chain()
    branches = []
    node = loop.body[-1]
    while True:
        ch.bound = dict(ch.bound)
        cond = ch.cond(node.test)
        branches.append(dict(cond=cond, key=key_of(node.test), summary=summarise(node.body), test=node.test.lineno,
                             first=node.body[0].lineno, last=node.body[-1].end_lineno))
        if len(node.orelse) == 1 and isinstance(node.orelse[0], ast.If):
            node = node.orelse[0]
        elif not node.orelse:
            break
        else:
            raise Refuse("the chain ends in an else part")

    # the patterns, from the imported module (what the running code uses)
    if str(src_path.parent.parent) not in sys.path:
        sys.path.insert(0, str(src_path.parent.parent))
    import ford.sourceform as sf
    if pathlib.Path(sf.__file__).resolve() != src_path.resolve():
        raise Refuse(f"imported ford.sourceform from {sf.__file__}, expected {src_path}")
    pats = []
    for name in ch.used:
        if name == "VARIABLE_RE":
            text, flags = sf.FortranContainer.VARIABLE_STRING.format(""), re.IGNORECASE
            # the instance attribute must be built exactly like this
            build = [n for n in ast.walk(inits[0]) if isinstance(n, ast.Assign)
                     and ast.unparse(n.targets[0]) == "self.VARIABLE_RE"]
            if len(build) != 1 or ast.unparse(build[0].value) != \
                    "re.compile(self.VARIABLE_STRING.format(typestr), re.IGNORECASE)":
                raise Refuse("VARIABLE_RE is not built from VARIABLE_STRING as expected")
        else:
            rx = getattr(sf.FortranContainer, name, None)
            if not isinstance(rx, re.Pattern):
                raise Refuse(f"{name} is not a compiled pattern of FortranContainer")
            text, flags = rx.pattern, rx.flags & ~re.UNICODE
        flagnames = [n for n, f in (("IGNORECASE", re.IGNORECASE), ("VERBOSE", re.VERBOSE)) if flags & f]
        if flags & ~(re.IGNORECASE | re.VERBOSE):
            raise Refuse(f"{name}: flags outside IGNORECASE/VERBOSE")
        pats.append((name, text, flagnames))
    quotes = sf.QUOTES_RE
    pats.append(("QUOTES_RE", quotes.pattern, [n for n, f in (("IGNORECASE", re.IGNORECASE),) if quotes.flags & f]))
    return dict(prologue=prologue, after=after, branches=branches, patterns=pats, loop_first=loop.body[0].lineno,
                loop_last=loop.end_lineno, src=str(src_path))


def main():
    out_path = pathlib.Path(sys.argv[1]) if len(sys.argv) > 1 else OUT
    info = analyse()
    prologue, after, branches, pats = info["prologue"], info["after"], info["branches"], info["patterns"]
    lines = ["(* GENERATED by translate/t_c01_cascade.py from ford/sourceform.py -- do not edit.",
             "   The statement-classification cascade of FortranContainer.__init__. *)",
             "From Ford Require Import Base.Str Sem.CascadeTypes.",
             "",
             "Definition prologue : list str :=",
             "  " + clist(cstr(p) for p in prologue) + ".",
             "",
             "Definition after_loop : list str :=",
             "  " + clist(cstr(p) for p in after) + ".",
             "",
             "Definition cascade : list branch :=",
             "  ["]
    items = []
    for br in branches:
        cond, (ha, ii, calls, eff) = br["cond"], br["summary"]
        items.append(f"   mkbranch ({cond})\n     {clist(cstr(x) for x in ha)} {clist(cstr(x) for x in ii)} "
                     f"{clist(cstr(x) for x in calls)} {clist(cstr(x) for x in eff)}")
    lines.append(";\n".join(items))
    lines.append("  ].")
    lines.append("")
    lines.append("Definition patterns : list (str * (str * list str)) :=")
    lines.append("  [" + ";\n   ".join(f"({cstr(n)}, ({cstr(t)}, {clist(cstr(f) for f in fl)}))" for n, t, fl in pats) + "].")
    lines.append("")
    text = "\n".join(lines)
    if not out_path.exists() or out_path.read_text() != text:      # an unchanged table keeps its time stamp (make)
        out_path.write_text(text)
    print(f"wrote {out_path}: {len(branches)} branches, {len(pats)} patterns")


if __name__ == "__main__":
    try:
        main()
    except Refuse as e:
        print(f"REFUSED: {e}", file=sys.stderr)
        sys.exit(2)
